// Reproduction of an existing defect (unchanged tree): a single flipped bit in the index table id
// of a log record makes `Db::open` panic, or leaves the column in a state in which the next
// commit panics, although the record fails its CRC-32 and is (correctly) not applied.
//
// Run with: cargo test --offline --features instrumentation --test c13_genuine_index_bits_flip

#![cfg(feature = "instrumentation")]

use parity_db::{Db, Options};
use std::path::Path;

fn options(path: &Path) -> Options {
	let mut options = Options::with_columns(path, 1);
	options.with_background_thread = false;
	options.always_flush = true;
	options
}

fn copy_dir(from: &Path, to: &Path) {
	std::fs::create_dir_all(to).unwrap();
	for entry in std::fs::read_dir(from).unwrap() {
		let entry = entry.unwrap();
		if entry.metadata().unwrap().is_file() {
			std::fs::copy(entry.path(), to.join(entry.file_name())).unwrap();
		}
	}
}

/// Crash with one flushed, not yet enacted record; then overwrite the index-bits byte of its
/// first action (an index insertion into the 16 bit index of column 0) and reopen.
fn reopen_with_index_bits(new_bits: u8) {
	let live = tempfile::tempdir().unwrap();
	let crashed = tempfile::tempdir().unwrap();
	let crashed_path = crashed.path().join("db");
	{
		let db = Db::open_or_create(&options(live.path())).unwrap();
		db.commit(vec![(0u8, b"key-1".to_vec(), Some(b"one".to_vec()))]).unwrap();
		db.process_commits().unwrap();
		db.flush_logs().unwrap();
		copy_dir(live.path(), &crashed_path);
	}
	let log = crashed_path.join("log0");
	let mut bytes = std::fs::read(&log).unwrap();
	assert_eq!(bytes[0], 1); // BEGIN_RECORD
	assert_eq!(bytes[9], 2); // INSERT_INDEX
	assert_eq!(bytes[10], 16); // index bits of the table id
	assert_eq!(bytes[11], 0); // column
	bytes[10] = new_bits;
	std::fs::write(&log, bytes).unwrap();

	// The record no longer matches its checksum: it must be dropped, without a panic ...
	let db = Db::open(&options(&crashed_path)).unwrap();
	assert_eq!(db.get(0, b"key-1").unwrap(), None);
	// ... and the database must be fully usable afterwards.
	db.commit(vec![(0u8, b"key-2".to_vec(), Some(b"two".to_vec()))]).unwrap();
	db.process_commits().unwrap();
	db.flush_logs().unwrap();
	db.enact_logs().unwrap();
	assert_eq!(db.get(0, b"key-2").unwrap(), Some(b"two".to_vec()));
}

// 16 -> 80: `Db::open` panics in index.rs total_chunks ("attempt to shift left with overflow").
#[test]
fn flipped_bit_6_of_index_bits() {
	reopen_with_index_bits(16 | 0x40);
}

// 16 -> 48: open succeeds, the next process_commits panics in Log::end_record
// ("index out of bounds: the len is 48 but the index is 48").
#[test]
fn flipped_bit_5_of_index_bits() {
	reopen_with_index_bits(16 | 0x20);
}
