// Native reproduction of the C08 defect (operations validated while being published), public API only.
// Copy to <crate>/tests/c08_repro.rs and run `cargo test --offline --test c08_repro`.
use parity_db::{ColumnOptions, Db, Operation, Options};

fn opts(name: &str, cols: Vec<ColumnOptions>) -> Options {
	let mut p = std::env::temp_dir();
	p.push(format!("pdb-c08-{}-{}", name, std::process::id()));
	let _ = std::fs::remove_dir_all(&p);
	let mut o = Options::with_columns(&p, cols.len() as u8);
	o.columns = cols;
	o
}

fn settle() {
	std::thread::sleep(std::time::Duration::from_millis(300));
}

#[test]
fn rejected_transaction_leaves_no_trace_hash_column() {
	let o = opts("hash", vec![ColumnOptions::default()]);
	let db = Db::open_or_create(&o).unwrap();
	let r = db.commit_changes(vec![
		(0u8, Operation::Set(b"k1".to_vec(), b"v1".to_vec())),
		(0u8, Operation::Reference(b"k2".to_vec())), // invalid: column has no reference counting
	]);
	assert!(r.is_err(), "the transaction must be rejected");
	assert_eq!(db.get(0, b"k1").unwrap(), None, "operation of a rejected transaction is visible");
	settle();
	assert_eq!(db.get(0, b"k1").unwrap(), None, "operation of a rejected transaction is visible later");
	drop(db);
	let _ = std::fs::remove_dir_all(&o.path);
}

#[test]
fn rejected_transaction_leaves_no_trace_in_other_columns() {
	let o = opts("two", vec![ColumnOptions::default(), ColumnOptions::default(), ColumnOptions::default()]);
	let db = Db::open_or_create(&o).unwrap();
	// whichever column is published first, one of the valid sets must not become visible
	let r = db.commit_changes(vec![
		(0u8, Operation::Set(b"a".to_vec(), b"1".to_vec())),
		(1u8, Operation::Reference(b"x".to_vec())),
		(2u8, Operation::Set(b"c".to_vec(), b"3".to_vec())),
	]);
	assert!(r.is_err());
	assert_eq!(db.get(0, b"a").unwrap(), None, "column 0 shows an operation of a rejected transaction");
	assert_eq!(db.get(2, b"c").unwrap(), None, "column 2 shows an operation of a rejected transaction");
	drop(db);
	let _ = std::fs::remove_dir_all(&o.path);
}

#[test]
fn rejected_transaction_leaves_no_trace_btree_column() {
	let o = opts("btree", vec![ColumnOptions { btree_index: true, ..Default::default() }]);
	let db = Db::open_or_create(&o).unwrap();
	let r = db.commit_changes(vec![
		(0u8, Operation::Set(b"k1".to_vec(), b"v1".to_vec())),
		(0u8, Operation::Reference(b"k2".to_vec())),
	]);
	assert!(r.is_err());
	assert_eq!(db.get(0, b"k1").unwrap(), None, "operation of a rejected transaction is visible");
	let mut it = db.iter(0).unwrap();
	it.seek_to_first().unwrap();
	assert_eq!(it.next().unwrap(), None, "iteration shows an operation of a rejected transaction");
	drop(it);
	drop(db);
	let _ = std::fs::remove_dir_all(&o.path);
}

// a valid transaction after a rejected one still works and is the only thing visible
#[test]
fn valid_transaction_after_rejected_one() {
	let o = opts("after", vec![ColumnOptions::default()]);
	let db = Db::open_or_create(&o).unwrap();
	let _ = db.commit_changes(vec![
		(0u8, Operation::Set(b"k1".to_vec(), b"v1".to_vec())),
		(0u8, Operation::Reference(b"k2".to_vec())),
	]);
	db.commit_changes(vec![(0u8, Operation::Set(b"k3".to_vec(), b"v3".to_vec()))]).unwrap();
	settle();
	assert_eq!(db.get(0, b"k3").unwrap(), Some(b"v3".to_vec()));
	assert_eq!(db.get(0, b"k1").unwrap(), None);
	drop(db);
	let _ = std::fs::remove_dir_all(&o.path);
}
