// Native reproduction of a C20 defect (public API): migrating a reference-counted column to a configuration without
// reference counting must keep every key's value. Copy to <crate>/tests/c20_repro.rs; `cargo test --offline --test c20_repro`.
use parity_db::{ColumnOptions, Db, Options};

fn dir(name: &str) -> std::path::PathBuf {
	let mut p = std::env::temp_dir();
	p.push(format!("pdb-c20-{}-{}", name, std::process::id()));
	let _ = std::fs::remove_dir_all(&p);
	p
}

#[test]
fn migrating_counted_values_to_a_plain_column_keeps_the_values() {
	let src = dir("src");
	let dst = dir("dst");
	let mut so = Options::with_columns(&src, 1);
	so.columns[0] = ColumnOptions { ref_counted: true, preimage: true, ..Default::default() };
	{
		let db = Db::open_or_create(&so).unwrap();
		// key "once" is set once (count 1), key "twice" twice (count 2), "thrice" three times
		db.commit(vec![(0u8, b"once".to_vec(), Some(b"value-1".to_vec())), (0u8, b"twice".to_vec(), Some(b"value-2".to_vec())), (0u8, b"thrice".to_vec(), Some(b"value-3".to_vec()))]).unwrap();
		db.commit(vec![(0u8, b"twice".to_vec(), Some(b"value-2".to_vec())), (0u8, b"thrice".to_vec(), Some(b"value-3".to_vec()))]).unwrap();
		db.commit(vec![(0u8, b"thrice".to_vec(), Some(b"value-3".to_vec()))]).unwrap();
	}
	let mut to = Options::with_columns(&dst, 1);
	to.columns[0] = ColumnOptions::default(); // no reference counting, no preimage
	parity_db::migrate(&src, to.clone(), false, &[0]).unwrap();
	let db = Db::open(&to).unwrap();
	let once = db.get(0, b"once").unwrap();
	let twice = db.get(0, b"twice").unwrap();
	let thrice = db.get(0, b"thrice").unwrap();
	drop(db);
	let _ = std::fs::remove_dir_all(&src);
	let _ = std::fs::remove_dir_all(&dst);
	assert_eq!(once, Some(b"value-1".to_vec()));
	assert_eq!(twice, Some(b"value-2".to_vec()), "a key with count 2 lost its value in the destination");
	assert_eq!(thrice, Some(b"value-3".to_vec()), "a key with count 3 lost its value in the destination");
}
