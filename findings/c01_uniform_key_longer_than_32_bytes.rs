use parity_db::{Db, Options};

// C01: "Keys may be any byte string the column type admits: ... 32 bytes or longer for uniform-key columns."
#[test]
fn uniform_long_key() {
	let tmp = tempfile::tempdir().unwrap();
	let mut options = Options::with_columns(tmp.path(), 1);
	options.columns[0].uniform = true;
	let db = Db::open_or_create(&options).unwrap();
	let key = vec![7u8; 33];
	let mut key2 = key.clone();
	key2[32] = 8;
	db.commit(vec![(0, key.clone(), Some(b"v".to_vec())), (0, key2.clone(), Some(b"w".to_vec()))]).unwrap();
	assert_eq!(db.get(0, &key).unwrap(), Some(b"v".to_vec()));
	assert_eq!(db.get(0, &key2).unwrap(), Some(b"w".to_vec()));
}
