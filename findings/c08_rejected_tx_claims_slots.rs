// C08 ("a rejected transaction leaves no trace ... no storage is consumed by it"): a transaction whose first operation is a
// valid InsertTree and whose second operation is invalid for the column is rejected by commit_changes, but the node slots
// claimed for the first operation (HashColumn::claim_tree_values -> ValueTable::claim_entries) stay claimed.
// The subject database is compared against a control database that never saw the rejected transaction.
use parity_db::{Db, NewNode, NodeAddress, NodeRef, Operation, Options};
use tempfile::tempdir;

const COL: u8 = 0;

fn options(path: &std::path::Path) -> Options {
	let mut options = Options::with_columns(path, 1);
	options.salt = Some([0; 32]);
	options.columns[0].multitree = true;
	options.columns[0].append_only = true;
	options
}

fn leaf(tag: u8) -> NodeRef {
	NodeRef::New(NewNode { data: vec![tag; 16], children: Vec::new() })
}

fn small_tree(key: &[u8], tag: u8) -> (u8, Operation<Vec<u8>, Vec<u8>>) {
	let root = NewNode { data: vec![tag; 8], children: vec![leaf(tag), leaf(tag + 1)] };
	(COL, Operation::InsertTree(key.to_vec(), root))
}

fn root_children(db: &Db, key: &[u8]) -> Vec<NodeAddress> {
	db.get_root(COL, key).unwrap().expect("tree root").1
}

#[test]
fn rejected_transaction_with_a_valid_tree_consumes_no_storage() {
	let tmp_subject = tempdir().unwrap();
	let tmp_control = tempdir().unwrap();
	let subject = Db::open_or_create(&options(tmp_subject.path())).unwrap();
	let control = Db::open_or_create(&options(tmp_control.path())).unwrap();

	subject.commit_changes(vec![small_tree(b"tree1", 1)]).unwrap();
	control.commit_changes(vec![small_tree(b"tree1", 1)]).unwrap();
	assert_eq!(root_children(&subject, b"tree1"), root_children(&control, b"tree1"));

	// valid tree insertion followed by an operation that is not valid for a multitree column
	let rejected = subject.commit_changes(vec![
		small_tree(b"bad", 7),
		(COL, Operation::Set(b"k".to_vec(), b"v".to_vec())),
	]);
	assert!(rejected.is_err());
	assert_eq!(subject.get_root(COL, b"bad").unwrap(), None);

	subject.commit_changes(vec![small_tree(b"tree2", 3)]).unwrap();
	control.commit_changes(vec![small_tree(b"tree2", 3)]).unwrap();
	assert_eq!(
		root_children(&subject, b"tree2"),
		root_children(&control, b"tree2"),
		"the rejected transaction consumed value table entries"
	);
}
