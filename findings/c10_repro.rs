// Native reproduction of the C10 defect (fan-out > 255 truncated by `len() as u8`), public API only.
// Copy to <crate>/tests/c10_repro.rs and run `cargo test --offline --test c10_repro`.
use parity_db::{ColumnOptions, Db, NewNode, NodeRef, Operation, Options};

fn opts(name: &str) -> Options {
	let mut p = std::env::temp_dir();
	p.push(format!("pdb-c10-{}-{}", name, std::process::id()));
	let _ = std::fs::remove_dir_all(&p);
	let mut o = Options::with_columns(&p, 1);
	o.columns[0] = ColumnOptions { multitree: true, append_only: true, ..Default::default() };
	o
}

fn wide_root(n: usize) -> NewNode {
	NewNode { data: vec![7, 8, 9], children: (0..n).map(|i| NodeRef::Existing(1000 + i as u64)).collect() }
}

// A root with 256 children must either read back with exactly its data and 256 children, or be rejected.
#[test]
fn root_with_256_children_is_rejected_or_reads_back_exactly() {
	let o = opts("root");
	let db = Db::open_or_create(&o).unwrap();
	let r = db.commit_changes(vec![(0u8, Operation::InsertTree(b"root".to_vec(), wide_root(256)))]);
	match r {
		Err(_) => {
			// rejected: nothing of it may be visible
			assert!(db.get_root(0, b"root").unwrap().is_none(), "rejected tree left a root behind");
		},
		Ok(()) => {
			let (data, children) = db.get_root(0, b"root").unwrap().expect("accepted tree must be readable");
			assert!(data == vec![7, 8, 9], "node data corrupted: {} bytes read back for 3 written", data.len());
			assert_eq!(children.len(), 256, "children lost");
		},
	}
	drop(db);
	let _ = std::fs::remove_dir_all(&o.path);
}

// The same for a new (non-root) node with 256 children below a small root.
#[test]
fn inner_node_with_256_children_is_rejected_or_reads_back_exactly() {
	let o = opts("inner");
	let db = Db::open_or_create(&o).unwrap();
	let root = NewNode { data: vec![1], children: vec![NodeRef::New(wide_root(256))] };
	let r = db.commit_changes(vec![(0u8, Operation::InsertTree(b"root".to_vec(), root))]);
	match r {
		Err(_) => assert!(db.get_root(0, b"root").unwrap().is_none()),
		Ok(()) => {
			let (_data, children) = db.get_root(0, b"root").unwrap().expect("accepted tree must be readable");
			assert_eq!(children.len(), 1);
			let mut tries = 0;
			loop {
				// the child node becomes readable once the commit reached the log overlay
				if let Ok(Some((data, grand))) = db.get_node(0, children[0]) {
					assert!(data == vec![7, 8, 9], "node data corrupted: {} bytes read back for 3 written", data.len());
					assert_eq!(grand.len(), 256, "children lost");
					break
				}
				tries += 1;
				assert!(tries < 200, "child node never became readable");
				std::thread::sleep(std::time::Duration::from_millis(20));
			}
		},
	}
	drop(db);
	let _ = std::fs::remove_dir_all(&o.path);
}

// Fan-out 255 is representable and must keep working.
#[test]
fn root_with_255_children_reads_back() {
	let o = opts("ok255");
	let db = Db::open_or_create(&o).unwrap();
	db.commit_changes(vec![(0u8, Operation::InsertTree(b"root".to_vec(), wide_root(255)))]).unwrap();
	let (data, children) = db.get_root(0, b"root").unwrap().unwrap();
	assert_eq!(data, vec![7, 8, 9]);
	assert_eq!(children.len(), 255);
	assert_eq!(children[254], 1254);
	drop(db);
	let _ = std::fs::remove_dir_all(&o.path);
}
