// Native reproductions (public API) of four more C13 defects: crafted or damaged write-ahead logs that make
// `Db::open` panic. Copy to <crate>/tests/c13b_repro.rs; run `cargo test --offline --test c13b_repro -- --test-threads 1`.
use parity_db::{ColumnOptions, Db, Options};

fn crc32(data: &[u8]) -> u32 {
	let mut crc = 0xffff_ffffu32;
	for &b in data {
		crc ^= b as u32;
		for _ in 0..8 {
			crc = if crc & 1 != 0 { (crc >> 1) ^ 0xedb8_8320 } else { crc >> 1 };
		}
	}
	!crc
}

fn record(actions: &[u8]) -> Vec<u8> {
	let mut r = vec![1u8];
	r.extend_from_slice(&1u64.to_le_bytes());
	r.extend_from_slice(actions);
	r.push(4);
	let c = crc32(&r);
	r.extend_from_slice(&c.to_le_bytes());
	r
}

fn open_with_log(name: &str, cols: Vec<ColumnOptions>, log: &[u8]) -> Result<(), String> {
	let mut dir = std::env::temp_dir();
	dir.push(format!("pdb-c13b-{}-{}", name, std::process::id()));
	let _ = std::fs::remove_dir_all(&dir);
	let mut options = Options::with_columns(&dir, cols.len() as u8);
	options.columns = cols;
	{
		let db = Db::open_or_create(&options).map_err(|e| format!("{e:?}"))?;
		db.commit(vec![(0u8, b"k0".to_vec(), Some(b"v0".to_vec()))]).map_err(|e| format!("{e:?}"))?;
	}
	let mut p = dir.clone();
	p.push("log0");
	std::fs::write(&p, log).unwrap();
	let r = std::panic::catch_unwind(|| Db::open(&options).map(|db| db.get(0, b"k0").ok().flatten()).map_err(|e| format!("{e:?}")));
	let _ = std::fs::remove_dir_all(&dir);
	match r {
		Err(_) => Err("PANIC during open".into()),
		Ok(Err(e)) => Err(format!("open failed: {e}")),
		Ok(Ok(v)) if v == Some(b"v0".to_vec()) => Ok(()),
		Ok(Ok(v)) => Err(format!("k0 reads back {:?}", v)),
	}
}

// (a) a log file whose first record id reads as 0 (e.g. a zero-filled file of >= 9 bytes): `replay_record_id() - 1` underflows
#[test]
fn zero_filled_log_file_does_not_panic() {
	assert_eq!(open_with_log("zero", vec![ColumnOptions::default()], &[0u8; 64]), Ok(()));
}

// (b) INSERT_REF_COUNT whose mask has a bit >= 32 (a ref-count chunk holds 32 entries): validation accepts, the apply
// pass slices the 512-byte chunk out of range
#[test]
fn ref_count_record_with_mask_bit_beyond_chunk_is_rejected() {
	let cols = vec![ColumnOptions::default(), ColumnOptions { multitree: true, ..Default::default() }];
	let mut a = vec![6u8];
	a.extend_from_slice(&0x0110u16.to_le_bytes()); // ref count table: column 1 (multitree), 16 bits
	a.extend_from_slice(&0u64.to_le_bytes()); // chunk 0
	a.extend_from_slice(&(1u64 << 40).to_le_bytes()); // mask: entry 40
	a.extend_from_slice(&[0x11u8; 16]);
	assert_eq!(open_with_log("rcmask", cols, &record(&a)), Ok(()));
}

// (b') INSERT_REF_COUNT addressed to a column that has no ref-count table at all
#[test]
fn ref_count_record_for_column_without_ref_counts_is_rejected() {
	let mut a = vec![6u8];
	a.extend_from_slice(&0x0010u16.to_le_bytes());
	a.extend_from_slice(&0u64.to_le_bytes());
	a.extend_from_slice(&1u64.to_le_bytes());
	a.extend_from_slice(&[0x11u8; 16]);
	assert_eq!(open_with_log("norc", vec![ColumnOptions::default()], &record(&a)), Ok(()));
}

// (c) DROP_TABLE naming a column that does not exist: not validated, the apply pass indexes the column vector unchecked
#[test]
fn drop_table_record_for_missing_column_is_rejected() {
	let mut a = vec![5u8];
	a.extend_from_slice(&0x0710u16.to_le_bytes()); // index table of column 7, 16 bits
	assert_eq!(open_with_log("drop", vec![ColumnOptions::default()], &record(&a)), Ok(()));
}
