// Reproductions of behaviours of the UNCHANGED code that disagree with property C17.
// Run with: cargo test --offline --features instrumentation --test c17_genuine -- --test-threads 1

use parity_db::{clear_column, ColumnOptions, Db, Options};
use std::path::Path;

fn copy_dir(from: &Path, to: &Path) {
	std::fs::create_dir_all(to).unwrap();
	for entry in std::fs::read_dir(from).unwrap() {
		let entry = entry.unwrap();
		std::fs::copy(entry.path(), to.join(entry.file_name())).unwrap();
	}
}

fn listing(dir: &Path) -> Vec<String> {
	let mut names: Vec<String> = std::fs::read_dir(dir)
		.unwrap()
		.map(|e| e.unwrap().file_name().into_string().unwrap())
		.collect();
	names.sort();
	names
}

// G1: add_column / drop_last_column / reset_column(Some) rewrite the metadata with the current
// version, whatever version the database has. Keys of the other columns are hashed by version.
#[test]
fn g1_admin_call_bumps_version_of_old_database() {
	let dir = tempfile::tempdir().unwrap();
	let path = dir.path().join("db");
	let mut options = Options::with_columns(&path, 1);
	options.columns[0].uniform = true;
	let key = [3u8; 32];
	drop(Db::open_or_create(&options).unwrap());
	let meta = std::fs::read_to_string(path.join("metadata")).unwrap();
	assert!(meta.contains("version=8"));
	std::fs::write(path.join("metadata"), meta.replace("version=8", "version=7")).unwrap();
	{
		let db = Db::open(&options).unwrap();
		db.commit(vec![(0u8, key.to_vec(), Some(b"value".to_vec()))]).unwrap();
	}
	{
		let db = Db::open(&options).unwrap();
		assert_eq!(db.get(0, &key).unwrap(), Some(b"value".to_vec()));
	}
	Db::add_column(&mut options, ColumnOptions::default()).unwrap();
	let meta = std::fs::read_to_string(path.join("metadata")).unwrap();
	println!("metadata after add_column:\n{meta}");
	let db = Db::open(&options).unwrap();
	assert_eq!(
		db.get(0, &key).unwrap(),
		Some(b"value".to_vec()),
		"content of column 0 changed by add_column"
	);
}

// G2: an explicit `salt` in the options is ignored when opening an existing database (the stored
// one is used), but the administration calls write it into the metadata.
#[test]
fn g2_admin_call_replaces_salt() {
	let dir = tempfile::tempdir().unwrap();
	let path = dir.path().join("db");
	let mut options = Options::with_columns(&path, 1);
	{
		let db = Db::open_or_create(&options).unwrap();
		db.commit(vec![(0u8, b"key".to_vec(), Some(b"value".to_vec()))]).unwrap();
	}
	options.salt = Some([7u8; 32]);
	{
		// Opening with another salt works and reads the data.
		let db = Db::open(&options).unwrap();
		assert_eq!(db.get(0, b"key").unwrap(), Some(b"value".to_vec()));
	}
	Db::add_column(&mut options, ColumnOptions::default()).unwrap();
	let db = Db::open(&options).unwrap();
	assert_eq!(
		db.get(0, b"key").unwrap(),
		Some(b"value".to_vec()),
		"content of column 0 changed by add_column"
	);
}

// G3: clear_column does not replay pending logs before deleting the files of the column.
#[cfg(feature = "instrumentation")]
#[test]
fn g3_clear_column_with_pending_logs() {
	let dir = tempfile::tempdir().unwrap();
	let path = dir.path().join("db");
	let crashed = dir.path().join("crashed");
	let mut options = Options::with_columns(&path, 2);
	options.with_background_thread = false;
	{
		let db = Db::open_or_create(&options).unwrap();
		db.commit((0u8..20).map(|i| (i % 2, vec![i; 8], Some(vec![i; 40])))).unwrap();
		db.process_commits().unwrap();
		db.flush_logs().unwrap();
		// The log is on disk, nothing is enacted: this is what a crash leaves behind.
		copy_dir(&path, &crashed);
	}
	println!("crashed: {:?}", listing(&crashed));
	clear_column(&crashed, 0).unwrap();
	println!("cleared: {:?}", listing(&crashed));
	options.path = crashed.clone();
	let db = Db::open(&options).unwrap();
	for i in 0u8..20 {
		if i % 2 == 1 {
			assert_eq!(db.get(1, &vec![i; 8]).unwrap(), Some(vec![i; 40]));
		}
	}
	for i in 0u8..20 {
		if i % 2 == 0 {
			assert_eq!(db.get(0, &vec![i; 8]).unwrap(), None, "cleared column is not empty");
		}
	}
}

// G4: opening a missing database (existing, empty directory) without create leaves a file.
#[test]
fn g4_open_missing_database_in_existing_directory() {
	let dir = tempfile::tempdir().unwrap();
	let options = Options::with_columns(dir.path(), 1);
	assert!(Db::open(&options).is_err());
	assert_eq!(listing(dir.path()), Vec::<String>::new());
}
