// Reproduction of an existing gap relative to property C12 (unchanged code):
// `HashColumn::flush` msyncs only the current index table, not the older index tables that sit
// in the reindex queue, although `enact_plan` still writes to them. `clean_logs` then truncates
// the log files describing those writes.
//
// Same harness as the other C12 demonstrations (interposed fsync/fdatasync/msync, durable image
// per file, power loss image reopened with `Db::open`).
//
// Run with: cargo test --offline --features instrumentation --test c12_genuine_reindex_source_not_flushed
#![cfg(all(feature = "instrumentation", target_os = "linux"))]

use libc::{c_int, c_void, size_t};
use parity_db::{Db, Options};
use std::{
	collections::HashMap,
	path::{Path, PathBuf},
	sync::Mutex,
};

// ---------------------------------------------------------------------------------------------
// Durable image tracking
// ---------------------------------------------------------------------------------------------

struct Tracker {
	root: PathBuf,
	durable: HashMap<PathBuf, Vec<u8>>,
	events: Vec<String>,
}

static TRACKER: Mutex<Option<Tracker>> = Mutex::new(None);

fn track(root: &Path) {
	let root = root.canonicalize().unwrap();
	*TRACKER.lock().unwrap() = Some(Tracker { root, durable: HashMap::new(), events: Vec::new() });
}

fn file_name(path: &Path) -> String {
	path.file_name().unwrap().to_string_lossy().into_owned()
}

fn on_file_sync(call: &str, fd: c_int) {
	let path = match std::fs::read_link(format!("/proc/self/fd/{fd}")) {
		Ok(path) => path,
		Err(_) => return,
	};
	let mut tracker = TRACKER.lock().unwrap();
	if let Some(tracker) = tracker.as_mut() {
		if path.starts_with(&tracker.root) {
			if let Ok(data) = std::fs::read(&path) {
				tracker.events.push(format!("{call}({}) len={}", file_name(&path), data.len()));
				tracker.durable.insert(path, data);
			}
		}
	}
}

// Find the file and the file offset backing the address `addr` of this process.
fn mapping_of(addr: usize) -> Option<(PathBuf, u64)> {
	let maps = std::fs::read_to_string("/proc/self/maps").ok()?;
	for line in maps.lines() {
		let mut fields = line.splitn(6, ' ');
		let range = fields.next()?;
		let _perms = fields.next()?;
		let offset = fields.next()?;
		let _dev = fields.next()?;
		let _inode = fields.next()?;
		let path = fields.next().unwrap_or("").trim();
		let (start, end) = range.split_once('-')?;
		let start = usize::from_str_radix(start, 16).ok()?;
		let end = usize::from_str_radix(end, 16).ok()?;
		if addr >= start && addr < end && path.starts_with('/') {
			let offset = u64::from_str_radix(offset, 16).ok()?;
			return Some((PathBuf::from(path), offset + (addr - start) as u64))
		}
	}
	None
}

fn on_msync(addr: usize, len: usize) {
	let (path, offset) = match mapping_of(addr) {
		Some(m) => m,
		None => return,
	};
	let mut tracker = TRACKER.lock().unwrap();
	if let Some(tracker) = tracker.as_mut() {
		if path.starts_with(&tracker.root) {
			if let Ok(live) = std::fs::read(&path) {
				let image = tracker.durable.entry(path.clone()).or_default();
				image.resize(live.len(), 0);
				let start = std::cmp::min(offset as usize, live.len());
				let end = std::cmp::min(start.saturating_add(len), live.len());
				image[start..end].copy_from_slice(&live[start..end]);
				tracker.events.push(format!("msync({}) {start}..{end}", file_name(&path)));
			}
		}
	}
}

#[no_mangle]
pub unsafe extern "C" fn fsync(fd: c_int) -> c_int {
	let r = libc::syscall(libc::SYS_fsync, fd) as c_int;
	if r == 0 {
		on_file_sync("fsync", fd);
	}
	r
}

#[no_mangle]
pub unsafe extern "C" fn fdatasync(fd: c_int) -> c_int {
	let r = libc::syscall(libc::SYS_fdatasync, fd) as c_int;
	if r == 0 {
		on_file_sync("fdatasync", fd);
	}
	r
}

#[no_mangle]
pub unsafe extern "C" fn msync(addr: *mut c_void, len: size_t, flags: c_int) -> c_int {
	let r = libc::syscall(libc::SYS_msync, addr, len, flags) as c_int;
	if r == 0 {
		on_msync(addr as usize, len);
	}
	r
}

#[derive(Clone, Copy, PartialEq)]
enum Unsynced {
	// All pages written since the last sync reached the disk.
	ReachedDisk,
	// None of the pages written since the last sync reached the disk.
	Lost,
}

// Assemble in `dest` what the disk may contain if the power is cut now.
fn power_loss_image(live: &Path, dest: &Path, fate: impl Fn(&str) -> Unsynced) {
	let live = live.canonicalize().unwrap();
	std::fs::create_dir_all(dest).unwrap();
	let tracker = TRACKER.lock().unwrap();
	let tracker = tracker.as_ref().unwrap();
	for entry in std::fs::read_dir(&live).unwrap() {
		let path = entry.unwrap().path();
		let name = file_name(&path);
		let current = std::fs::read(&path).unwrap();
		let content = match (fate(&name), tracker.durable.get(&path)) {
			(Unsynced::ReachedDisk, _) => current,
			(Unsynced::Lost, Some(image)) => image.clone(),
			(Unsynced::Lost, None) => vec![0u8; current.len()],
		};
		std::fs::write(dest.join(&name), content).unwrap();
	}
}

fn events() -> Vec<String> {
	TRACKER.lock().unwrap().as_ref().unwrap().events.clone()
}

// ---------------------------------------------------------------------------------------------
// The scenario
// ---------------------------------------------------------------------------------------------

// With the `instrumentation` feature, a zero salt and `uniform` keys the key is used as its own
// hash, so all these keys fall into the same chunk of a 16 bit index.
fn key(i: u8) -> Vec<u8> {
	let mut k = vec![0u8; 32];
	k[0] = 0xab;
	k[1] = 0xcd;
	k[2] = i;
	k
}

#[test]
fn log_is_not_truncated_before_old_index_is_flushed() {
	let tmp = tempfile::tempdir().unwrap();
	let live = tmp.path().join("live");
	let crashed = tmp.path().join("crashed");
	std::fs::create_dir_all(&live).unwrap();
	track(&live);

	let mut options = Options::with_columns(&live, 1);
	options.salt = Some([0; 32]);
	options.columns[0].uniform = true;
	options.with_background_thread = false;
	options.always_flush = true;
	assert!(options.sync_wal && options.sync_data);
	let db = Db::open_or_create(&options).unwrap();

	// Record 1: 60 keys into one chunk of index_00_16. Logged, not applied yet.
	db.commit((0..60u8).map(|i| (0u8, key(i), Some(vec![i; 8])))).unwrap();
	db.process_commits().unwrap();
	// Record 2: 10 more keys. The chunk (64 entries) overflows while planning, which starts a
	// reindex: index_00_17 becomes the current index, index_00_16 goes to the reindex queue.
	db.commit((60..70u8).map(|i| (0u8, key(i), Some(vec![i; 8])))).unwrap();
	db.process_commits().unwrap();
	// Both records are synced to the log and applied. Record 1 and part of record 2 write to
	// index_00_16.
	db.flush_logs().unwrap();
	db.enact_logs().unwrap();
	assert!(live.join("index_00_16").exists() && live.join("index_00_17").exists());
	// Tables are flushed and the log is truncated.
	db.clean_logs().unwrap();
	for i in 0..70u8 {
		assert_eq!(db.get(0, &key(i)).unwrap(), Some(vec![i; 8]));
	}

	// Power loss; nothing written since the last sync of each file reached the disk.
	power_loss_image(&live, &crashed, |name| {
		if name.starts_with("log") || name.starts_with("index_") || name.starts_with("table_") {
			Unsynced::Lost
		} else {
			Unsynced::ReachedDisk
		}
	});
	let trace = events();
	eprintln!("syncs seen: {trace:?}");

	let mut crashed_options = Options::with_columns(&crashed, 1);
	crashed_options.salt = Some([0; 32]);
	crashed_options.columns[0].uniform = true;
	crashed_options.with_background_thread = false;
	let recovered = Db::open(&crashed_options).unwrap();
	let missing: Vec<u8> =
		(0..70u8).filter(|i| recovered.get(0, &key(*i)).unwrap() != Some(vec![*i; 8])).collect();
	assert!(
		missing.is_empty(),
		"{} of 70 committed keys lost although their log records were synced, applied and then truncated; syncs seen: {trace:?}",
		missing.len()
	);
}
