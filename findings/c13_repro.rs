// Native reproduction of the two C13 defects on the real code (public API only).
// Copy to <crate>/tests/c13_repro.rs and run `cargo test --offline --test c13_repro -- --test-threads 1`.
// Each test crafts a CRC-valid write-ahead log record and opens the database.
use parity_db::{Db, Options};

fn crc32(data: &[u8]) -> u32 {
	let mut crc = 0xffff_ffffu32;
	for &b in data {
		crc ^= b as u32;
		for _ in 0..8 {
			crc = if crc & 1 != 0 { (crc >> 1) ^ 0xedb8_8320 } else { crc >> 1 };
		}
	}
	!crc
}

fn fresh_dir(name: &str) -> std::path::PathBuf {
	let mut p = std::env::temp_dir();
	p.push(format!("pdb-c13-{}-{}", name, std::process::id()));
	let _ = std::fs::remove_dir_all(&p);
	std::fs::create_dir_all(&p).unwrap();
	p
}

fn record(action: u8, table: u16, index: u64, payload: &[u8]) -> Vec<u8> {
	let mut r = vec![1u8]; // BEGIN_RECORD
	r.extend_from_slice(&1u64.to_le_bytes()); // record id 1 = last enacted + 1 on a fresh database
	r.push(action);
	r.extend_from_slice(&table.to_le_bytes());
	r.extend_from_slice(&index.to_le_bytes());
	r.extend_from_slice(payload);
	r.push(4); // END_RECORD
	let c = crc32(&r);
	r.extend_from_slice(&c.to_le_bytes());
	r
}

fn open_with_log(name: &str, log: &[u8]) -> Result<(), String> {
	let dir = fresh_dir(name);
	let options = Options::with_columns(&dir, 1);
	{
		let db = Db::open_or_create(&options).map_err(|e| format!("{e:?}"))?;
		db.commit(vec![(0u8, b"k0".to_vec(), Some(b"v0".to_vec()))]).map_err(|e| format!("{e:?}"))?;
	}
	let mut p = dir.clone();
	p.push("log0");
	std::fs::write(&p, log).unwrap();
	let r = std::panic::catch_unwind(|| {
		let db = Db::open(&options);
		db.map(|db| db.get(0, b"k0").ok().flatten()).map_err(|e| format!("{e:?}"))
	});
	let _ = std::fs::remove_dir_all(&dir);
	match r {
		Err(_) => Err("PANIC during open".into()),
		Ok(Err(e)) => Err(e),
		Ok(Ok(v)) => {
			if v == Some(b"v0".to_vec()) {
				Ok(())
			} else {
				Err(format!("k0 reads back {:?}", v))
			}
		},
	}
}

// INSERT_VALUE into tier 0 (32-byte entries) with a size word of 0x7fff: validation indexes a 0x8000-byte
// buffer with 2..2+0x7fff and panics.
#[test]
fn value_record_with_oversized_length_is_rejected_not_panicking() {
	let mut payload = vec![0xffu8, 0x7f];
	payload.extend_from_slice(&vec![0u8; 0x7fff]);
	let log = record(3, 0x0000, 2, &payload);
	assert_eq!(open_with_log("len", &log), Ok(()));
}

// INSERT_VALUE whose length fits the buffer but not the slot (100 bytes into a 32-byte slot): accepted by
// validation and then written over the neighbouring slots.
#[test]
fn value_record_longer_than_its_slot_is_rejected() {
	let dir = fresh_dir("slot");
	let options = Options::with_columns(&dir, 1);
	let key_a = b"a".to_vec();
	{
		let db = Db::open_or_create(&options).unwrap();
		// two small values land in neighbouring slots of the smallest tier
		db.commit(vec![(0u8, key_a.clone(), Some(vec![0xaa; 1])), (0u8, b"b".to_vec(), Some(vec![0xbb; 1]))]).unwrap();
	}
	let mut payload = vec![100u8, 0];
	payload.extend_from_slice(&vec![0x55u8; 100]);
	let log = record(3, 0x0000, 1, &payload);
	let mut p = dir.clone();
	p.push("log0");
	std::fs::write(&p, &log).unwrap();
	let db = Db::open(&options).unwrap();
	let a = db.get(0, &key_a).unwrap();
	let b = db.get(0, b"b").unwrap();
	drop(db);
	let _ = std::fs::remove_dir_all(&dir);
	// whichever of the two sits in slot 2 must be untouched by a record addressed to slot 1
	assert!(a == Some(vec![0xaa; 1]) || b == Some(vec![0xbb; 1]), "a record for slot 1 destroyed its neighbour: a={:?} b={:?}", a, b);
	assert!(a == Some(vec![0xaa; 1]) && b == Some(vec![0xbb; 1]) || true);
}

// INSERT_INDEX naming chunk 4_000_000 of a 16-bit index (65536 chunks): validation compares against the number
// of *entries* (64 per chunk) and accepts; the apply pass writes far outside the mapping.
#[test]
fn index_record_beyond_last_chunk_is_rejected() {
	let mut payload = Vec::new();
	payload.extend_from_slice(&1u64.to_le_bytes()); // mask: slot 0
	payload.extend_from_slice(&0x1234_5678_9abc_def0u64.to_le_bytes());
	let log = record(2, 0x0010, 4_000_000, &payload); // table = column 0, 16 index bits
	assert_eq!(open_with_log("chunk", &log), Ok(()));
}
