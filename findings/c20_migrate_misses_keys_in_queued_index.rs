// Reproduction (unchanged tree): migrate() loses the keys that still live in an older index table
// of the source, i.e. a source that was shut down while an index growth (reindex) was pending.
// Copy to tests/migrate_pending_reindex.rs and run:
//   cargo test --offline --features instrumentation --test migrate_pending_reindex -- --nocapture
// Instrumentation is used for (1) the zero-salt identity hashing of `uniform` keys, which lets 70
// keys share one index chunk and forces an index growth with a handful of keys, and (2) stepping
// the pipeline without background threads so that the database is closed before the reindex runs
// (the log worker explicitly allows a reindex to be interrupted by shutdown).
#![cfg(feature = "instrumentation")]
use parity_db::{ColumnOptions, CompressionType, Db, Options};

fn key(n: u8) -> Vec<u8> {
	let mut k = vec![0u8; 32];
	k[0..2].copy_from_slice(&0x1234u16.to_be_bytes());
	k[2] = n;
	k[3] = 0x5a;
	for (i, b) in k.iter_mut().enumerate().skip(4) {
		*b = n.wrapping_mul(31).wrapping_add(i as u8);
	}
	k
}

#[test]
fn migrate_source_with_pending_reindex() {
	let dir = tempfile::tempdir().unwrap();
	let source_dir = dir.path().join("source");
	let dest_dir = dir.path().join("dest");
	let mut source_opts = Options::with_columns(&source_dir, 1);
	source_opts.salt = Some([0u8; 32]);
	source_opts.columns[0] = ColumnOptions { uniform: true, ..Default::default() };
	source_opts.with_background_thread = false;
	source_opts.always_flush = true;
	{
		let source = Db::open_or_create(&source_opts).unwrap();
		// The 65th key of the chunk starts index_00_17; the first 64 stay in index_00_16.
		source.commit((0..70u8).map(|n| (0u8, key(n), Some(vec![n; 10])))).unwrap();
		source.process_commits().unwrap();
		source.flush_logs().unwrap();
		source.enact_logs().unwrap();
		source.clean_logs().unwrap();
		// No process_reindex: closed with the reindex pending.
	}
	{
		// The source is a healthy database: a reopen serves every key.
		let source = Db::open(&source_opts).unwrap();
		for n in 0..70u8 {
			assert_eq!(source.get(0, &key(n)).unwrap(), Some(vec![n; 10]));
		}
	}
	let mut names: Vec<_> =
		std::fs::read_dir(&source_dir).unwrap().map(|e| e.unwrap().file_name()).collect();
	names.sort();
	eprintln!("source files before migrate: {names:?}");

	let mut dest_opts = Options::with_columns(&dest_dir, 1);
	dest_opts.columns[0] =
		ColumnOptions { uniform: true, compression: CompressionType::Lz4, ..Default::default() };
	parity_db::migrate(&source_dir, dest_opts.clone(), false, &[]).unwrap();
	dest_opts.salt = None;
	let dest = Db::open(&dest_opts).unwrap();
	let missing: Vec<u8> =
		(0..70u8).filter(|n| dest.get(0, &key(*n)).unwrap() != Some(vec![*n; 10])).collect();
	assert!(missing.is_empty(), "{} keys missing in destination: {:?}", missing.len(), missing);
}
