// Reproduction of a defect of the unchanged code: a value that moves to another size tier while
// its key is only present in an old index generation, and the chunk of the main index is full,
// loses its index entry.
#![cfg(feature = "instrumentation")]

use parity_db::{Db, Options};
use tempfile::tempdir;

fn key(b17: u8, b18: u8, id: u8) -> Vec<u8> {
	let mut k = [0u8; 32];
	k[2] = (b17 << 7) | (b18 << 6);
	k[3] = id;
	k[4] = 0x55;
	k[16] = id;
	k.to_vec()
}

fn drain(db: &Db) {
	for _ in 0..16 {
		for _ in 0..8 {
			db.process_commits().unwrap();
		}
		db.process_reindex().unwrap();
		db.flush_logs().unwrap();
		db.enact_logs().unwrap();
		db.clean_logs().unwrap();
	}
}

#[test]
fn tier_move_of_a_key_in_an_old_index_when_the_main_index_chunk_is_full() {
	let tmp = tempdir().unwrap();
	let mut options = Options::with_columns(tmp.path(), 1);
	options.columns[0].uniform = true;
	options.salt = Some(Default::default());
	options.always_flush = true;
	options.with_background_thread = false;
	let db = Db::open_or_create(&options).unwrap();

	let mut id = 0u8;
	// 64 keys fill chunk 0 of i16.
	let mut tx = Vec::new();
	for n in 0..64u8 {
		id += 1;
		tx.push((0u8, key(n & 1, (n >> 1) & 1, id), Some(vec![id; 8])));
	}
	let target = tx[0].1.clone(); // b17 = 0
	db.commit(tx).unwrap();
	db.process_commits().unwrap();

	// 64 more keys: the first starts i17, all go to chunk 0 of i17 and fill it.
	let mut tx = Vec::new();
	for n in 0..64u8 {
		id += 1;
		tx.push((0u8, key(0, n & 1, id), Some(vec![id; 8])));
	}
	db.commit(tx).unwrap();
	db.process_commits().unwrap();

	// Overwrite a key that is still in i16 only with a value of another size tier.
	let big = vec![0xabu8; 300];
	db.commit(vec![(0u8, target.clone(), Some(big.clone()))]).unwrap();
	assert_eq!(db.get(0, &target).unwrap(), Some(big.clone())); // served by the commit overlay
	drain(&db);
	let mut n = 0;
	db.iter_column_while(0, |_| {
		n += 1;
		true
	})
	.unwrap();
	assert_eq!(n, 128, "value is still stored");
	let got = db.get(0, &target).unwrap();
	assert!(got == Some(big), "committed value must be readable, got {:?}", got.map(|v| v.len()));
}
