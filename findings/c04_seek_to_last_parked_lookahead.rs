#![cfg(feature = "instrumentation")]
//! C04: after seek_to_last() a forward step yields nothing, whatever the iterator did before.
use parity_db::{Db, Options};
use tempfile::tempdir;

#[test]
fn seek_to_last_forgets_a_parked_lookahead() {
	let tmp = tempdir().unwrap();
	let mut options = Options::with_columns(tmp.path(), 1);
	options.columns[0].btree_index = true;
	options.always_flush = true;
	options.with_background_thread = false;
	let db = Db::open_or_create(&options).unwrap();
	// "b" goes to the tree (tables) ...
	db.commit(vec![(0, b"b".to_vec(), Some(b"vb".to_vec()))]).unwrap();
	db.process_commits().unwrap();
	db.flush_logs().unwrap();
	db.enact_logs().unwrap();
	db.clean_logs().unwrap();
	// ... "a" stays in the commit overlay
	db.commit(vec![(0, b"a".to_vec(), Some(b"va".to_vec()))]).unwrap();

	let mut iter = db.iter(0).unwrap();
	iter.seek_to_first().unwrap();
	assert_eq!(iter.next().unwrap(), Some((b"a".to_vec(), b"va".to_vec())));
	iter.seek_to_last().unwrap();
	// positioned after the last key: nothing further on
	assert_eq!(iter.next().unwrap(), None);
	// and the last key going back
	iter.seek_to_last().unwrap();
	assert_eq!(iter.prev().unwrap(), Some((b"b".to_vec(), b"vb".to_vec())));
}
