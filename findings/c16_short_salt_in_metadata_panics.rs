use parity_db::{Db, Options};

// C16 / C17: a damaged metadata file must be reported, not panic: a salt line with fewer than 32 bytes of hex
#[test]
fn metadata_with_short_salt_is_rejected_without_panic() {
	let tmp = tempfile::tempdir().unwrap();
	let opts = Options::with_columns(tmp.path(), 1);
	{
		let db = Db::open_or_create(&opts).unwrap();
		db.commit(vec![(0u8, b"k".to_vec(), Some(b"v".to_vec()))]).unwrap();
	}
	let meta = tmp.path().join("metadata");
	let full = String::from_utf8(std::fs::read(&meta).unwrap()).unwrap();
	let cut: String = full
		.lines()
		.map(|l| if l.starts_with("salt=") { l[..5 + 10].to_string() } else { l.to_string() })
		.collect::<Vec<_>>()
		.join("\n");
	std::fs::write(&meta, cut).unwrap();
	let r = std::panic::catch_unwind(|| Db::open(&opts).map(|_| ()));
	match r {
		Err(_) => panic!("Db::open panicked on a short salt"),
		Ok(Ok(())) => panic!("a damaged metadata file was accepted"),
		Ok(Err(_)) => {},
	}
}
