#!/bin/bash
# Offline setup: warm the Kani dependency build cache and Verus' first-run cache. Idempotent.
set -u
cd "$(dirname "$0")"
export CARGO_NET_OFFLINE=true
mkdir -p .cache evidence replay
python3 lib/warm.py || echo "warm-up failed (checks will compile cold)"
exit 0
