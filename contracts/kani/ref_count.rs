// Appended to /repo/src/ref_count.rs of the scratch copy. Unit U9 (ref-count table): log-record validation.
#![allow(dead_code, unused_variables, unused_imports, static_mut_refs)]
use super::*;

fn ok<T>(r: Result<T>) -> Option<T> {
	match r {
		Ok(v) => Some(v),
		Err(e) => {
			std::mem::forget(e);
			None
		},
	}
}

macro_rules! reader_harness {
	($(#[$m:meta])* $name:ident, $body:expr) => {
		#[kani::proof]
		$(#[$m])*
		#[kani::stub(crate::log::LogReader::read, crate::log::verif_log::stub_read)]
		#[kani::stub(crc32fast::Hasher::new, crate::verif_stubs::crc_hasher_new)]
		#[kani::stub(parking_lot::RawRwLock::lock_shared_slow, crate::verif_stubs::lock_shared_slow)]
		#[kani::stub(parking_lot::RawRwLock::unlock_shared_slow, crate::verif_stubs::unlock_shared_slow)]
		#[kani::stub(parking_lot::RawRwLock::lock_exclusive_slow, crate::verif_stubs::lock_exclusive_slow)]
		#[kani::stub(parking_lot::RawRwLock::unlock_exclusive_slow, crate::verif_stubs::unlock_exclusive_slow)]
		#[kani::stub(std::fmt::format, crate::verif_stubs::fmt_format)]
		fn $name() {
			$body
		}
	};
}

// popcount class `k` of the low 32 mask bits concrete; the high 32 bits arbitrary
fn u9_refcount_body(k: u32) {
	use crate::log::verif_log as vl;
	let mask: u64 = kani::any();
	kani::assume((mask as u32).count_ones() == k);
	kani::assume(mask >> 32 == 0 || k == 0); // a high bit is rejected before the walk; checked with k == 0 to keep the loop bound
	let fail_at: usize = kani::any();
	vl::reader_reset(mask.to_le_bytes(), fail_at);
	let b: u8 = kani::any();
	kani::assume(b >= 16 && b <= 49);
	let t = RefCountTable { id: RefCountTableId::new(1, b), map: RwLock::new(None), path: std::path::PathBuf::new() };
	let index: u64 = kani::any();
	let mut r = vl::mk_reader();
	let v = ok(t.validate_plan(index, &mut r));
	let (calls, bytes, maxlen) = vl::reader_stats();
	if v.is_some() {
		// what enact_plan relies on: the chunk is inside the file and every entry the mask names is inside the chunk
		assert!(index < (1u64 << b as u32), "U9.refcount.validated_chunk_in_file");
		assert!(META_SIZE as u64 + (index + 1) * CHUNK_LEN as u64 <= file_size(b), "U9.refcount.validated_write_inside_mapping");
		assert!(mask >> CHUNK_ENTRIES == 0, "U9.refcount.validated_mask_within_chunk");
		assert!(calls == 1 + k as usize && bytes == 8 + ENTRY_BYTES as u64 * k as u64, "U9.refcount.consumes_mask_plus_one_entry_per_set_bit");
	}
	assert!(maxlen <= ENTRY_BYTES, "U9.refcount.reads_are_entry_sized");
	kani::cover!(v.is_some(), "opt: record accepted");
	kani::cover!(v.is_none() && mask >> 32 != 0 && index == 0 && fail_at > 4, "opt: high mask bit rejected");
	std::mem::forget(r);
}
/*@@GENERATED:ref_count@@*/
