// Appended to /repo/src/btree/iter.rs of the scratch copy. Unit U58: the walk of BTreeIterState over the node stack
// (next / exit / node_start in iter.rs, Node::seek in node.rs) on a two-level tree whose nodes are handed out by contract.
//
// The tree: a root with NR separators and NR+1 leaves; leaf c holds NL[c] separators. Every separator carries its in-order
// rank (1..=N) in its value address and has the one-byte key 2*rank, so that odd bytes are keys that are absent.
//   Node::fetch_child / BTree::fetch_root  -> the scripted node (contract: "returns the node stored at that address")
//   BTreeTable::get_at_value_index(address) -> Some(value = [rank])   (contract: the value stored at the separator's address)
#![allow(dead_code, unused_variables, unused_imports, static_mut_refs, unused_mut)]
use super::*;
use crate::btree::node::{Child, Node, Separator, SeparatorInner};

fn ok<T>(r: Result<T>) -> Option<T> {
	match r {
		Ok(v) => Some(v),
		Err(e) => {
			std::mem::forget(e);
			None
		},
	}
}

pub(crate) static mut NR: usize = 0;
pub(crate) static mut NL: [usize; 9] = [0; 9];

fn rank_leaf(c: usize, j: usize) -> u64 {
	let mut r = 0usize;
	let mut k = 0;
	while k < c {
		r += unsafe { NL[k] } + 1;
		k += 1;
	}
	(r + j + 1) as u64
}
fn rank_root(k: usize) -> u64 {
	rank_leaf(k, unsafe { NL[k] })
}
fn total() -> u64 {
	rank_leaf(unsafe { NR }, unsafe { NL[NR] }) - 1
}
fn sep(rank: u64) -> Separator {
	Separator { modified: false, separator: Some(SeparatorInner { key: vec![(2 * rank) as u8], value: Address::from_u64(rank) }) }
}
fn mk_root() -> Node {
	let mut node = Node { separators: Default::default(), children: Default::default(), changed: false };
	let nr = unsafe { NR };
	let mut i = 0;
	while i < nr {
		node.separators[i] = sep(rank_root(i));
		i += 1;
	}
	let mut j = 0;
	while j <= nr {
		node.children[j] = Child { moved: false, entry_index: Some(Address::from_u64(1000 + j as u64)) };
		j += 1;
	}
	node
}
fn mk_leaf(c: usize) -> Node {
	let mut node = Node { separators: Default::default(), children: Default::default(), changed: false };
	let n = unsafe { NL[c] };
	let mut i = 0;
	while i < n {
		node.separators[i] = sep(rank_leaf(c, i));
		i += 1;
	}
	node
}
pub(crate) fn stub_fetch_root<L: LogQuery>(_root: Address, _tables: TablesRef, _log: &L) -> Result<Node> {
	Ok(mk_root())
}
pub(crate) fn stub_fetch_child<L: LogQuery>(this: &Node, i: usize, _values: TablesRef, _log: &L) -> Result<Option<Node>> {
	match this.children[i].entry_index {
		Some(a) => {
			let c = a.as_u64();
			assert!(c >= 1000 && c <= 1008, "verif: fetch_child of a leaf");
			Ok(Some(mk_leaf((c - 1000) as usize)))
		},
		None => Ok(None),
	}
}
pub(crate) fn stub_get_at_value_index<L: LogQuery>(_this: &BTreeTable, _key: TableKeyQuery, address: Address, _log: &L) -> Result<Option<(u8, Value)>> {
	Ok(Some((0, vec![address.as_u64() as u8])))
}

fn rank_of(r: Option<Option<(Vec<u8>, Value)>>) -> i64 {
	// -1: error, 0: end reached, otherwise the rank of the returned entry; key and value must belong together
	match r {
		None => -1,
		Some(None) => 0,
		Some(Some((k, v))) => {
			let rk = if v.len() == 1 { v[0] as i64 } else { -2 };
			let kk = if k.len() == 1 { k[0] as i64 } else { -3 };
			std::mem::forget(k);
			std::mem::forget(v);
			if kk == 2 * rk {
				rk
			} else {
				-4
			}
		},
	}
}
fn dir(forward: bool) -> IterDirection {
	if forward {
		IterDirection::Forward
	} else {
		IterDirection::Backward
	}
}

macro_rules! iter_harness {
	($(#[$m:meta])* $name:ident, $body:expr) => {
		#[kani::proof]
		$(#[$m])*
		#[kani::stub(crate::btree::btree::BTree::fetch_root, stub_fetch_root)]
		#[kani::stub(crate::btree::node::Node::fetch_child, stub_fetch_child)]
		#[kani::stub(crate::btree::BTreeTable::get_at_value_index, stub_get_at_value_index)]
		#[kani::stub(std::hash::RandomState::new, crate::verif_stubs::random_state_new)]
		#[kani::stub(parking_lot::RawRwLock::lock_shared_slow, crate::verif_stubs::lock_shared_slow)]
		#[kani::stub(parking_lot::RawRwLock::unlock_shared_slow, crate::verif_stubs::unlock_shared_slow)]
		#[kani::stub(parking_lot::RawRwLock::lock_exclusive_slow, crate::verif_stubs::lock_exclusive_slow)]
		#[kani::stub(parking_lot::RawRwLock::unlock_exclusive_slow, crate::verif_stubs::unlock_exclusive_slow)]
		#[kani::stub(std::fmt::format, crate::verif_stubs::fmt_format)]
		fn $name() {
			$body;
		}
	};
}

fn set_shape(nr: usize, nl: [usize; 9]) {
	unsafe {
		NR = nr;
		NL = nl;
	}
}

// ---- a walk from the start / end position: `steps` calls of next(), each in an arbitrary direction.
// Expected (C04): from the start position forward yields the first key, backward from the end position the last; after a
// step returned the entry of rank p, forward yields rank p+1 (or the end), backward rank p-1 (or the end).
fn u58_walk(nr: usize, nl: [usize; 9], steps: usize) {
	set_shape(nr, nl);
	let n = total() as i64;
	let bt = std::mem::ManuallyDrop::new(crate::btree::verif_btree_mod::mk_btree_table_empty());
	let log = std::mem::ManuallyDrop::new(crate::log::LogOverlays::with_columns(0));
	let mut tree = BTree::new(Some(Address::from_u64(5)), 1, 0);
	let mut st = BTreeIterState::new(0);
	let mut pos: i64 = 0; // 0: fresh (start / end position)
	let mut s = 0;
	while s < steps {
		let forward: bool = kani::any();
		let got = rank_of(ok(st.next(&mut tree, &bt, &*log, dir(forward))));
		let expect = if pos == 0 {
			if forward {
				if n == 0 { 0 } else { 1 }
			} else {
				n
			}
		} else if forward {
			if pos == n { 0 } else { pos + 1 }
		} else {
			pos - 1
		};
		assert!(got >= 0, "U58.next.no_error_and_key_belongs_to_value");
		assert!(got == expect, "U58.next.yields_the_in_order_neighbour_in_the_direction_of_the_step");
		kani::cover!(s + 1 == steps && got > 0, "last step returns an entry");
		if got == 0 {
			break
		}
		pos = got;
		s += 1;
	}
	std::mem::forget(st);
}

// ---- seek, then one step in an arbitrary direction, then one more.
// Expected (C04): after seeking to k, forward yields the smallest key >= k, backward the largest key <= k.
fn u58_seek(nr: usize, nl: [usize; 9]) {
	set_shape(nr, nl);
	let n = total() as i64;
	let bt = std::mem::ManuallyDrop::new(crate::btree::verif_btree_mod::mk_btree_table_empty());
	let log = std::mem::ManuallyDrop::new(crate::log::LogOverlays::with_columns(0));
	let mut tree = BTree::new(Some(Address::from_u64(5)), 1, 0);
	let mut st = BTreeIterState::new(0);
	let kb: u8 = kani::any();
	kani::assume(kb >= 1 && (kb as i64) <= 2 * n + 1);
	let key = [kb];
	let r = ok(st.seek(SeekTo::Include(&key), &mut tree, &bt, &*log));
	assert!(r.is_some(), "U58.seek.no_error");
	let forward: bool = kani::any();
	let got = rank_of(ok(st.next(&mut tree, &bt, &*log, dir(forward))));
	// keys are 2*rank: the smallest key >= kb has rank ceil(kb/2), the largest key <= kb has rank floor(kb/2)
	let k = kb as i64;
	let expect = if forward {
		let r = (k + 1) / 2;
		if r > n { 0 } else { r }
	} else {
		k / 2
	};
	assert!(got >= 0, "U58.seek.no_error_and_key_belongs_to_value");
	assert!(got == expect, "U58.seek.first_step_yields_smallest_key_not_below_or_largest_key_not_above");
	if got != 0 {
		// and the step after that continues from the entry returned
		let forward2: bool = kani::any();
		let got2 = rank_of(ok(st.next(&mut tree, &bt, &*log, dir(forward2))));
		let expect2 = if forward2 {
			if got == n { 0 } else { got + 1 }
		} else {
			got - 1
		};
		assert!(got2 == expect2, "U58.seek.second_step_continues_from_the_entry_returned");
		kani::cover!(got2 > 0 && forward != forward2, "direction change after a seek");
	}
	kani::cover!(k % 2 == 1 && got > 0, "seek to an absent key");
	kani::cover!(k % 2 == 0, "seek to a present key");
	std::mem::forget(st);
}

// ---- seek past a given key (used when the iterator is repositioned after a returned key): Exclude(k), k present
fn u58_seek_exclude(nr: usize, nl: [usize; 9]) {
	set_shape(nr, nl);
	let n = total() as i64;
	let bt = std::mem::ManuallyDrop::new(crate::btree::verif_btree_mod::mk_btree_table_empty());
	let log = std::mem::ManuallyDrop::new(crate::log::LogOverlays::with_columns(0));
	let mut tree = BTree::new(Some(Address::from_u64(5)), 1, 0);
	let mut st = BTreeIterState::new(0);
	let kb: u8 = kani::any();
	kani::assume(kb >= 1 && (kb as i64) <= 2 * n + 1);
	let key = [kb];
	let r = ok(st.seek(SeekTo::Exclude(&key), &mut tree, &bt, &*log));
	assert!(r.is_some(), "U58.seek_exclude.no_error");
	let forward: bool = kani::any();
	let got = rank_of(ok(st.next(&mut tree, &bt, &*log, dir(forward))));
	let k = kb as i64;
	// strictly greater / strictly smaller than k
	let expect = if forward {
		let r = k / 2 + 1;
		if r > n { 0 } else { r }
	} else {
		(k - 1) / 2
	};
	assert!(got == expect, "U58.seek_exclude.first_step_yields_the_strict_neighbour");
	kani::cover!(k % 2 == 0 && got > 0, "exclude a present key");
	std::mem::forget(st);
}

// ---- seek to the last position, then step
fn u58_seek_last(nr: usize, nl: [usize; 9]) {
	set_shape(nr, nl);
	let n = total() as i64;
	let bt = std::mem::ManuallyDrop::new(crate::btree::verif_btree_mod::mk_btree_table_empty());
	let log = std::mem::ManuallyDrop::new(crate::log::LogOverlays::with_columns(0));
	let mut tree = BTree::new(Some(Address::from_u64(5)), 1, 0);
	let mut st = BTreeIterState::new(0);
	let r = ok(st.seek_to_last(&mut tree, &bt, &*log));
	assert!(r.is_some(), "U58.seek_to_last.no_error");
	let forward: bool = kani::any();
	let got = rank_of(ok(st.next(&mut tree, &bt, &*log, dir(forward))));
	assert!(got == if forward { 0 } else { n }, "U58.seek_to_last.backward_yields_the_last_key_forward_nothing");
	std::mem::forget(st);
}

/*@@GENERATED:btree_iter@@*/
