// Appended to /repo/src/options.rs of the scratch copy.
// Unit U35: Options::load_and_validate_metadata -- stored metadata that disagrees with the requested options (column count or
// any per-column flag) is rejected and nothing is written; a missing database is created only when asked to.
#![allow(dead_code, unused_variables, unused_imports, static_mut_refs, unused_mut)]
use super::*;

fn ok<T>(r: Result<T>) -> std::result::Result<T, u8> {
	match r {
		Ok(v) => Ok(v),
		Err(e) => {
			let k = match &e {
				Error::DatabaseNotFound => 1,
				Error::InvalidConfiguration(_) => 2,
				Error::IncompatibleColumnConfig { .. } => 3,
				_ => 9,
			};
			std::mem::forget(e);
			Err(k)
		},
	}
}

fn any_compression() -> CompressionType {
	match kani::any::<u8>() % 3 {
		0 => CompressionType::NoCompression,
		1 => CompressionType::Lz4,
		_ => CompressionType::Snappy,
	}
}
fn any_column() -> ColumnOptions {
	ColumnOptions {
		preimage: kani::any(),
		uniform: kani::any(),
		ref_counted: kani::any(),
		compression: any_compression(),
		btree_index: kani::any(),
		multitree: kani::any(),
		append_only: kani::any(),
		allow_direct_node_access: kani::any(),
	}
}
// the statement's notion of "agree": every per-column flag is the same
fn same_flags(a: &ColumnOptions, b: &ColumnOptions) -> bool {
	a.preimage == b.preimage &&
		a.uniform == b.uniform &&
		a.ref_counted == b.ref_counted &&
		(a.compression as u8) == (b.compression as u8) &&
		a.btree_index == b.btree_index &&
		a.multitree == b.multitree &&
		a.append_only == b.append_only &&
		a.allow_direct_node_access == b.allow_direct_node_access
}

pub(crate) static mut STORED_PRESENT: bool = false;
pub(crate) static mut STORED_N: usize = 0;
pub(crate) static mut STORED: [Option<ColumnOptions>; 2] = [None, None];
pub(crate) static mut STORED_SALT: Salt = [0u8; 32];
pub(crate) static mut LOAD_N: usize = 0;
pub(crate) static mut WRITE_N: usize = 0;
// Options::load_metadata by contract: the metadata file's content, if the file exists
pub(crate) fn stub_load_metadata(_path: &Path) -> Result<Option<Metadata>> {
	unsafe {
		LOAD_N += 1;
		if !STORED_PRESENT {
			return Ok(None)
		}
		let mut columns = Vec::new();
		if STORED_N > 0 {
			columns.push(STORED[0].clone().unwrap());
		}
		if STORED_N > 1 {
			columns.push(STORED[1].clone().unwrap());
		}
		Ok(Some(Metadata { salt: STORED_SALT, version: CURRENT_VERSION, columns }))
	}
}
// Options::write_metadata by contract: (re)writes the metadata file
pub(crate) fn stub_write_metadata(_o: &Options, _path: &Path, _salt: &Salt) -> Result<()> {
	unsafe {
		WRITE_N += 1;
	}
	Ok(())
}

// the random salt of a fresh database is outside the harness (a salt is always given): reaching the generator fails the proof
pub(crate) fn stub_thread_rng() -> rand::rngs::ThreadRng {
	panic!("verif: random salt generation reached")
}

fn u35_body(n_opt: usize, n_stored: usize) {
	let a = [any_column(), any_column()];
	let b = [any_column(), any_column()];
	let mut columns = Vec::new();
	if n_opt > 0 {
		columns.push(a[0].clone());
	}
	if n_opt > 1 {
		columns.push(a[1].clone());
	}
	let present: bool = kani::any();
	unsafe {
		STORED_PRESENT = present;
		STORED_N = n_stored;
		STORED = [Some(b[0].clone()), Some(b[1].clone())];
		STORED_SALT = kani::any();
		LOAD_N = 0;
		WRITE_N = 0;
	}
	let options = std::mem::ManuallyDrop::new(Options {
		path: std::path::PathBuf::new(),
		columns,
		sync_wal: true,
		sync_data: true,
		stats: false,
		// a salt is given: the random salt of a fresh database (rand::thread_rng) is outside the harness
		salt: Some(kani::any()),
		compression_threshold: HashMap::new(),
	});
	let create: bool = kani::any();
	let r = ok(options.load_and_validate_metadata(create));
	let mut agree = n_opt == n_stored;
	if n_opt > 0 && n_stored > 0 && !same_flags(&a[0], &b[0]) {
		agree = false;
	}
	if n_opt > 1 && n_stored > 1 && !same_flags(&a[1], &b[1]) {
		agree = false;
	}
	if present {
		// an existing database is never rewritten by opening it, whatever the outcome
		assert!(unsafe { WRITE_N } == 0, "U35.open.existing_metadata_is_never_rewritten");
		match r {
			Ok(meta) => {
				assert!(agree, "U35.open.disagreeing_options_are_rejected");
				assert!(meta.columns.len() == n_stored && meta.salt[0] == unsafe { STORED_SALT[0] } && meta.salt[31] == unsafe { STORED_SALT[31] }, "U35.open.returns_the_stored_metadata");
				std::mem::forget(meta);
			},
			Err(k) => {
				assert!(!agree, "U35.open.agreeing_options_are_accepted");
				// (which error value reports the mismatch is not fixed by the property: not asserted)
			},
		}
	} else if create {
		match r {
			Ok(meta) => {
				assert!(unsafe { WRITE_N } == 1, "U35.create.metadata_written_once");
				assert!(meta.columns.len() == n_opt, "U35.create.metadata_describes_the_requested_columns");
				if n_opt > 0 {
					assert!(same_flags(&meta.columns[0], &a[0]), "U35.create.metadata_describes_the_requested_columns");
				}
				if n_opt > 1 {
					assert!(same_flags(&meta.columns[1], &a[1]), "U35.create.metadata_describes_the_requested_columns");
				}
				std::mem::forget(meta);
			},
			Err(_) => assert!(false, "U35.create.no_error"),
		}
	} else {
		// opening a missing database without `create` fails and creates nothing
		assert!(r.is_err(), "U35.open.missing_database_is_reported");
		assert!(unsafe { WRITE_N } == 0, "U35.open.missing_database_is_not_created");
	}
	kani::cover!(present, "reached");
	kani::cover!(present && agree, "opt:accepted");
	kani::cover!(present && !agree, "opt:rejected");
}

macro_rules! options_harness {
	($name:ident, $body:expr) => {
		#[kani::proof]
		#[kani::unwind(4)]
		#[kani::stub(Options::load_metadata, stub_load_metadata)]
		#[kani::stub(Options::write_metadata, stub_write_metadata)]
		#[kani::stub(rand::thread_rng, stub_thread_rng)]
		#[kani::stub(std::hash::RandomState::new, crate::verif_stubs::random_state_new)]
		#[kani::stub(std::fmt::format, crate::verif_stubs::fmt_format)]
		fn $name() {
			$body
		}
	};
}
options_harness!(u35_metadata_1_1, u35_body(1, 1));
options_harness!(u35_metadata_2_2, u35_body(2, 2));
options_harness!(u35_metadata_1_2, u35_body(1, 2));
options_harness!(u35_metadata_2_1, u35_body(2, 1));

// the validity rules of column flags, as Db::open asserts them
#[kani::proof]
fn u35_column_flag_validity() {
	let c = any_column();
	let want = !(c.ref_counted && !c.preimage) && !(c.ref_counted && c.append_only) &&
		!(c.multitree && (c.compression as u8) != (CompressionType::NoCompression as u8));
	assert!(c.is_valid() == want, "U35.is_valid.exactly_the_documented_flag_conflicts_are_rejected");
}
