// Appended to /repo/src/column.rs of the scratch copy as a child module (sees private items).
// Units U7 (size-tier selection) and U11 (multitree node packing: reader side + representability check).
#![allow(dead_code, unused_variables, unused_imports, static_mut_refs)]
use super::*;
use crate::table::verif_table::mk_table;

fn ok<T>(r: Result<T>) -> Option<T> {
	match r {
		Ok(v) => Some(v),
		Err(e) => {
			std::mem::forget(e);
			None
		},
	}
}

// ================================================================== U7: tier table and tier selection
#[kani::proof]
#[kani::unwind(257)]
fn u7_sizes_table() {
	assert!(SIZES.len() == 255 && crate::table::SIZE_TIERS == 256, "U7.sizes.255_fixed_tiers");
	assert!(SIZES[0] as usize == crate::table::MIN_ENTRY_SIZE, "U7.sizes.first_is_min_entry_size");
	assert!(SIZES[254] as usize <= crate::table::MAX_ENTRY_SIZE, "U7.sizes.last_within_max_entry_size");
	let mut i = 1;
	while i < 255 {
		assert!(SIZES[i - 1] < SIZES[i], "U7.sizes.strictly_increasing");
		i += 1;
	}
}

// `compress` on a slice of four tables with arbitrary entry sizes (the function is generic in the slice; with
// `SIZES` strictly increasing the same statement gives minimality on the real 256-table vector)
fn u7_compress_body(rc: bool, with_key: bool) {
	let s0: u16 = kani::any();
	let s1: u16 = kani::any();
	let s2: u16 = kani::any();
	kani::assume(s0 >= 32 && s0 <= 0x7ff8 && s1 >= 32 && s1 <= 0x7ff8 && s2 >= 32 && s2 <= 0x7ff8);
	let tables = [mk_table(s0, false, rc, 1, 0), mk_table(s1, false, rc, 1, 0), mk_table(s2, false, rc, 1, 0), mk_table(4096, true, rc, 1, 0)];
	let key = if with_key { TableKey::Partial(kani::any()) } else { TableKey::NoHash };
	let len: usize = kani::any();
	kani::assume(len <= 0x10000);
	let buf = [0u8; 0x10000];
	let value = &buf[..len];
	let no = crate::compress::Compress::new(crate::compress::CompressionType::NoCompression, u32::MAX);
	let (cval, tier) = Column::compress(&no, &key, value, &tables);
	assert!(cval.is_none(), "U7.compress.no_compression_keeps_value");
	assert!(tier < 4, "U7.compress.tier_in_range");
	let hdr = 2 + if rc { 4 } else { 0 } + if with_key { 26 } else { 0 };
	let cap = |s: u16| -> Option<usize> { if (s as usize) >= hdr { Some(s as usize - hdr) } else { None } };
	let fits = |s: u16| -> bool { cap(s).map_or(false, |c| len <= c) };
	let sizes = [s0, s1, s2];
	if tier < 3 {
		assert!(fits(sizes[tier]), "U7.compress.value_fits_chosen_tier");
		if tier >= 1 {
			assert!(!fits(s0), "U7.compress.chosen_tier_is_first_that_fits");
		}
		if tier >= 2 {
			assert!(!fits(s1), "U7.compress.chosen_tier_is_first_that_fits");
		}
	} else {
		// the chained-storage table is used only if the value fits it directly or no fixed tier takes it
		assert!(!fits(s0) && !fits(s1) && !fits(s2), "U7.compress.blob_table_only_if_no_fixed_tier_fits");
	}
	kani::cover!(tier == 1, "middle tier");
	kani::cover!(tier == 3, "blob table");
	std::mem::forget(tables);
}
macro_rules! col_harness {
	($(#[$m:meta])* $name:ident, $body:expr) => {
		#[kani::proof]
		$(#[$m])*
		#[kani::stub(parking_lot::RawRwLock::lock_shared_slow, crate::verif_stubs::lock_shared_slow)]
		#[kani::stub(parking_lot::RawRwLock::unlock_shared_slow, crate::verif_stubs::unlock_shared_slow)]
		#[kani::stub(parking_lot::RawRwLock::lock_exclusive_slow, crate::verif_stubs::lock_exclusive_slow)]
		#[kani::stub(parking_lot::RawRwLock::unlock_exclusive_slow, crate::verif_stubs::unlock_exclusive_slow)]
		#[kani::stub(std::fmt::format, crate::verif_stubs::fmt_format)]
		fn $name() {
			$body
		}
	};
}
col_harness!(#[kani::unwind(6)] u7_compress_rk, u7_compress_body(true, true));
col_harness!(#[kani::unwind(6)] u7_compress_nn, u7_compress_body(false, false));
col_harness!(#[kani::unwind(6)] u7_compress_nk, u7_compress_body(false, true));

// ================================================================== U11: packed node format  data ++ LE64(child)* ++ [count]
#[kani::proof]
#[kani::stub(std::fmt::format, crate::verif_stubs::fmt_format)]
fn u11_child_count_representable() {
	let n: usize = kani::any();
	match ok(packed_child_count(n)) {
		Some(c) => assert!(n <= 255 && c as usize == n, "U11.child_count.ok_iff_fits_one_byte"),
		None => assert!(n > 255, "U11.child_count.rejects_only_unrepresentable"),
	}
	let d: usize = kani::any();
	kani::assume(d <= 4);
	let c: u8 = kani::any();
	let data = vec![0u8; d];
	assert!(packed_node_size(&data, c) == d + 8 * c as usize + 1, "U11.packed_node_size");
}

// reader on a well-formed packed node: `nchild` children (concrete), `dlen` data bytes (concrete), contents symbolic
fn u11_unpack_wellformed<const N: usize>(nchild: usize, dlen: usize) {
	let raw: [u8; N] = kani::any();
	kani::assume(N == dlen + 8 * nchild + 1);
	kani::assume(raw[N - 1] as usize == nchild);
	let v = raw.to_vec();
	match ok(unpack_node_children(&v)) {
		Some(ch) => {
			assert!(ch.len() == nchild, "U11.unpack_children.count");
			let i: usize = kani::any();
			kani::assume(i < nchild);
			let o = dlen + 8 * i;
			let exp = u64::from_le_bytes([raw[o], raw[o + 1], raw[o + 2], raw[o + 3], raw[o + 4], raw[o + 5], raw[o + 6], raw[o + 7]]);
			assert!(ch[i] == exp, "U11.unpack_children.addresses_in_order");
		},
		None => assert!(false, "U11.unpack_children.accepts_wellformed"),
	}
	match ok(unpack_node_data(v)) {
		Some((d, ch)) => {
			assert!(d.len() == dlen, "U11.unpack_data.data_length");
			assert!(ch.len() == nchild, "U11.unpack_data.count");
			let q: usize = kani::any();
			kani::assume(q < dlen);
			assert!(d[q] == raw[q], "U11.unpack_data.data_bytes");
			let i: usize = kani::any();
			kani::assume(i < nchild);
			let o = dlen + 8 * i;
			let exp = u64::from_le_bytes([raw[o], raw[o + 1], raw[o + 2], raw[o + 3], raw[o + 4], raw[o + 5], raw[o + 6], raw[o + 7]]);
			assert!(ch[i] == exp, "U11.unpack_data.addresses_in_order");
		},
		None => assert!(false, "U11.unpack_data.accepts_wellformed"),
	}
}
// reader on arbitrary bytes of length N: never panics, rejects exactly the inconsistent lengths
fn u11_unpack_arbitrary<const N: usize>() {
	let raw: [u8; N] = kani::any();
	let v = raw.to_vec();
	let consistent = N >= 1 && N >= 8 * (raw[N - 1] as usize) + 1;
	let a = ok(unpack_node_children(&v));
	assert!(a.is_some() == consistent, "U11.unpack_children.rejects_exactly_inconsistent_length");
	let b = ok(unpack_node_data(v));
	assert!(b.is_some() == consistent, "U11.unpack_data.rejects_exactly_inconsistent_length");
	if let Some((d, ch)) = b {
		assert!(d.len() + 8 * ch.len() + 1 == N, "U11.unpack_data.partitions_the_bytes");
	}
}
/*@@GENERATED:column@@*/
