// Appended to /repo/src/column.rs of the scratch copy as a child module (sees private items).
// Units U7 (size-tier selection) and U11 (multitree node packing: reader side + representability check).
#![allow(dead_code, unused_variables, unused_imports, static_mut_refs)]
use super::*;
use crate::table::verif_table::mk_table;

fn ok<T>(r: Result<T>) -> Option<T> {
	match r {
		Ok(v) => Some(v),
		Err(e) => {
			std::mem::forget(e);
			None
		},
	}
}

// ================================================================== U7: tier table and tier selection
#[kani::proof]
#[kani::unwind(257)]
fn u7_sizes_table() {
	assert!(SIZES.len() == 255 && crate::table::SIZE_TIERS == 256, "U7.sizes.255_fixed_tiers");
	assert!(SIZES[0] as usize == crate::table::MIN_ENTRY_SIZE, "U7.sizes.first_is_min_entry_size");
	assert!(SIZES[254] as usize <= crate::table::MAX_ENTRY_SIZE, "U7.sizes.last_within_max_entry_size");
	let mut i = 1;
	while i < 255 {
		assert!(SIZES[i - 1] < SIZES[i], "U7.sizes.strictly_increasing");
		i += 1;
	}
}

// `compress` on a slice of four tables with arbitrary entry sizes (the function is generic in the slice; with
// `SIZES` strictly increasing the same statement gives minimality on the real 256-table vector)
fn u7_compress_body(rc: bool, with_key: bool) {
	let s0: u16 = kani::any();
	let s1: u16 = kani::any();
	let s2: u16 = kani::any();
	kani::assume(s0 >= 32 && s0 <= 0x7ff8 && s1 >= 32 && s1 <= 0x7ff8 && s2 >= 32 && s2 <= 0x7ff8);
	let tables = [mk_table(s0, false, rc, 1, 0), mk_table(s1, false, rc, 1, 0), mk_table(s2, false, rc, 1, 0), mk_table(4096, true, rc, 1, 0)];
	let key = if with_key { TableKey::Partial(kani::any()) } else { TableKey::NoHash };
	let len: usize = kani::any();
	kani::assume(len <= 0x10000);
	let buf = [0u8; 0x10000];
	let value = &buf[..len];
	let no = crate::compress::Compress::new(crate::compress::CompressionType::NoCompression, u32::MAX);
	let (cval, tier) = Column::compress(&no, &key, value, &tables);
	assert!(cval.is_none(), "U7.compress.no_compression_keeps_value");
	assert!(tier < 4, "U7.compress.tier_in_range");
	let hdr = 2 + if rc { 4 } else { 0 } + if with_key { 26 } else { 0 };
	let cap = |s: u16| -> Option<usize> { if (s as usize) >= hdr { Some(s as usize - hdr) } else { None } };
	let fits = |s: u16| -> bool { cap(s).map_or(false, |c| len <= c) };
	let sizes = [s0, s1, s2];
	if tier < 3 {
		// a fixed-size tier must be able to hold the value (which of the fitting tiers is chosen is a space policy: not asserted)
		assert!(fits(sizes[tier]), "U7.compress.value_fits_chosen_tier");
	} else {
		// the chained-storage table is used only if no fixed tier of this slice takes the value (a value that fits a fixed
		// tier but is stored as a chain head without the chain marker would not be readable: U8d.callee_pre)
		assert!(!fits(s0) && !fits(s1) && !fits(s2), "U7.compress.blob_table_only_if_no_fixed_tier_fits");
	}
	kani::cover!(tier == 1, "middle tier");
	kani::cover!(tier == 3, "blob table");
	std::mem::forget(tables);
}
macro_rules! col_harness {
	($(#[$m:meta])* $name:ident, $body:expr) => {
		#[kani::proof]
		$(#[$m])*
		#[kani::stub(parking_lot::RawRwLock::lock_shared_slow, crate::verif_stubs::lock_shared_slow)]
		#[kani::stub(parking_lot::RawRwLock::unlock_shared_slow, crate::verif_stubs::unlock_shared_slow)]
		#[kani::stub(parking_lot::RawRwLock::lock_exclusive_slow, crate::verif_stubs::lock_exclusive_slow)]
		#[kani::stub(parking_lot::RawRwLock::unlock_exclusive_slow, crate::verif_stubs::unlock_exclusive_slow)]
		#[kani::stub(std::fmt::format, crate::verif_stubs::fmt_format)]
		fn $name() {
			$body
		}
	};
}
col_harness!(#[kani::unwind(6)] u7_compress_rk, u7_compress_body(true, true));
col_harness!(#[kani::unwind(6)] u7_compress_nn, u7_compress_body(false, false));
col_harness!(#[kani::unwind(6)] u7_compress_nk, u7_compress_body(false, true));

// ================================================================== U11: packed node format  data ++ LE64(child)* ++ [count]
#[kani::proof]
#[kani::stub(std::fmt::format, crate::verif_stubs::fmt_format)]
fn u11_child_count_representable() {
	let n: usize = kani::any();
	match ok(packed_child_count(n)) {
		Some(c) => assert!(n <= 255 && c as usize == n, "U11.child_count.ok_iff_fits_one_byte"),
		None => assert!(n > 255, "U11.child_count.rejects_only_unrepresentable"),
	}
	let d: usize = kani::any();
	kani::assume(d <= 4);
	let c: u8 = kani::any();
	let data = vec![0u8; d];
	assert!(packed_node_size(&data, c as _) == d + 8 * c as usize + 1, "U11.packed_node_size");
}

// reader on a well-formed packed node: `nchild` children (concrete), `dlen` data bytes (concrete), contents symbolic
fn u11_unpack_wellformed<const N: usize>(nchild: usize, dlen: usize) {
	let raw: [u8; N] = kani::any();
	kani::assume(N == dlen + 8 * nchild + 1);
	kani::assume(raw[N - 1] as usize == nchild);
	let v = raw.to_vec();
	match ok(unpack_node_children(&v)) {
		Some(ch) => {
			assert!(ch.len() == nchild, "U11.unpack_children.count");
			let i: usize = kani::any();
			kani::assume(i < nchild);
			let o = dlen + 8 * i;
			let exp = u64::from_le_bytes([raw[o], raw[o + 1], raw[o + 2], raw[o + 3], raw[o + 4], raw[o + 5], raw[o + 6], raw[o + 7]]);
			assert!(ch[i] == exp, "U11.unpack_children.addresses_in_order");
		},
		None => assert!(false, "U11.unpack_children.accepts_wellformed"),
	}
	match ok(unpack_node_data(v)) {
		Some((d, ch)) => {
			assert!(d.len() == dlen, "U11.unpack_data.data_length");
			assert!(ch.len() == nchild, "U11.unpack_data.count");
			let q: usize = kani::any();
			kani::assume(q < dlen);
			assert!(d[q] == raw[q], "U11.unpack_data.data_bytes");
			let i: usize = kani::any();
			kani::assume(i < nchild);
			let o = dlen + 8 * i;
			let exp = u64::from_le_bytes([raw[o], raw[o + 1], raw[o + 2], raw[o + 3], raw[o + 4], raw[o + 5], raw[o + 6], raw[o + 7]]);
			assert!(ch[i] == exp, "U11.unpack_data.addresses_in_order");
		},
		None => assert!(false, "U11.unpack_data.accepts_wellformed"),
	}
}
// reader on arbitrary bytes of length N: never panics, rejects exactly the inconsistent lengths
fn u11_unpack_arbitrary<const N: usize>() {
	let raw: [u8; N] = kani::any();
	let v = raw.to_vec();
	let consistent = N >= 1 && N >= 8 * (raw[N - 1] as usize) + 1;
	let a = ok(unpack_node_children(&v));
	assert!(a.is_some() == consistent, "U11.unpack_children.rejects_exactly_inconsistent_length");
	let b = ok(unpack_node_data(v));
	assert!(b.is_some() == consistent, "U11.unpack_data.rejects_exactly_inconsistent_length");
	if let Some((d, ch)) = b {
		assert!(d.len() + 8 * ch.len() + 1 == N, "U11.unpack_data.partitions_the_bytes");
	}
}

// ================================================================== U8-dispatch: Column::write_existing_value_plan
// The value-table operations it calls are replaced by their contracts (recorders that also assert the callee's
// precondition); those contracts are the ones checked on the real functions by U6 / U8 / U14.
pub(crate) static mut DC_N: usize = 0;
pub(crate) static mut DC_KIND: [u8; 4] = [0; 4]; // 1 replace, 2 remove, 3 insert, 4 inc_ref, 5 dec_ref
pub(crate) static mut DC_TABLE: [u16; 4] = [0; 4];
pub(crate) static mut DC_INDEX: [u64; 4] = [0; 4];
pub(crate) static mut DC_LEN: [usize; 4] = [0; 4];
pub(crate) static mut DC_FLAG: [bool; 4] = [false; 4];
pub(crate) static mut DC_NEW_OFFSET: u64 = 0;
pub(crate) static mut DC_DEC_ALIVE: bool = false;
fn dc_push(kind: u8, t: &ValueTable, index: u64, len: usize, flag: bool) {
	unsafe {
		assert!(DC_N < 4, "verif: too many table operations");
		DC_KIND[DC_N] = kind;
		DC_TABLE[DC_N] = t.id.as_u16();
		DC_INDEX[DC_N] = index;
		DC_LEN[DC_N] = len;
		DC_FLAG[DC_N] = flag;
		DC_N += 1;
	}
}
// precondition shared by the chain writers (U6): the value fits a fixed table (the exec `assert!` of overwrite_chain);
// a value stored in the chained-storage table must need more than one part, because a head there is only readable
// if it carries the MULTIHEAD marker (for_parts, U6.R)
fn dc_writer_pre(t: &ValueTable, key: &TableKey, value: &[u8]) {
	let cap = t.value_size(key);
	if t.entry_size == 4096 && t.id.size_tier() == 255 {
		assert!(cap.map_or(true, |c| value.len() > c as usize), "U8d.callee_pre.blob_table_values_are_multipart");
	} else {
		assert!(cap.map_or(false, |c| value.len() <= c as usize), "U8d.callee_pre.value_fits_fixed_table");
	}
}
pub(crate) fn stub_replace(t: &ValueTable, index: u64, key: &TableKey, value: &[u8], _log: &mut LogWriter, compressed: bool) -> Result<()>
{
	dc_writer_pre(t, key, value);
	dc_push(1, t, index, value.len(), compressed);
	Ok(())
}
pub(crate) fn stub_remove(t: &ValueTable, index: u64, _log: &mut LogWriter) -> Result<()>
{
	dc_push(2, t, index, 0, false);
	Ok(())
}
pub(crate) fn stub_insert(t: &ValueTable, key: &TableKey, value: &[u8], _log: &mut LogWriter, compressed: bool) -> Result<u64>
{
	dc_writer_pre(t, key, value);
	dc_push(3, t, 0, value.len(), compressed);
	Ok(unsafe { DC_NEW_OFFSET })
}
pub(crate) fn stub_inc_ref(t: &ValueTable, index: u64, _log: &mut LogWriter) -> Result<()>
{
	dc_push(4, t, index, 0, false);
	Ok(())
}
pub(crate) fn stub_dec_ref(t: &ValueTable, index: u64, _log: &mut LogWriter) -> Result<bool>
{
	dc_push(5, t, index, 0, false);
	Ok(unsafe { DC_DEC_ALIVE })
}
macro_rules! dispatch_harness {
	($(#[$m:meta])* $name:ident, $body:expr) => {
		#[kani::proof]
		$(#[$m])*
		#[kani::stub(crate::table::ValueTable::write_replace_plan, stub_replace)]
		#[kani::stub(crate::table::ValueTable::write_remove_plan, stub_remove)]
		#[kani::stub(crate::table::ValueTable::write_insert_plan, stub_insert)]
		#[kani::stub(crate::table::ValueTable::write_inc_ref, stub_inc_ref)]
		#[kani::stub(crate::table::ValueTable::write_dec_ref, stub_dec_ref)]
		#[kani::stub(std::hash::RandomState::new, crate::verif_stubs::random_state_new)]
		#[kani::stub(parking_lot::RawRwLock::lock_shared_slow, crate::verif_stubs::lock_shared_slow)]
		#[kani::stub(parking_lot::RawRwLock::unlock_shared_slow, crate::verif_stubs::unlock_shared_slow)]
		#[kani::stub(parking_lot::RawRwLock::lock_exclusive_slow, crate::verif_stubs::lock_exclusive_slow)]
		#[kani::stub(parking_lot::RawRwLock::unlock_exclusive_slow, crate::verif_stubs::unlock_exclusive_slow)]
		#[kani::stub(std::fmt::format, crate::verif_stubs::fmt_format)]
		fn $name() {
			$body
		}
	};
}
// op: 0 Set, 1 Reference, 2 Dereference
fn u8_dispatch(op: u8, ref_counted: bool, preimage: bool) {
	// three fixed tiers with arbitrary increasing sizes, the last at least one chained part wide (as SIZES[254] = 32760 is), + the blob table
	let s0: u16 = kani::any();
	let s1: u16 = kani::any();
	let s2: u16 = kani::any();
	kani::assume(s0 >= 32 && s0 < s1 && s1 < s2 && s2 >= 4096 && s2 <= 0x7ff8);
	let tables = [
		crate::table::verif_table::mk_table_tier(s0, false, ref_counted, 0),
		crate::table::verif_table::mk_table_tier(s1, false, ref_counted, 1),
		crate::table::verif_table::mk_table_tier(s2, false, ref_counted, 2),
		crate::table::verif_table::mk_table_tier(4096, true, ref_counted, 255),
	];
	let no = crate::compress::Compress::new(crate::compress::CompressionType::NoCompression, u32::MAX);
	let tr = TablesRef { tables: &tables, compression: &no, col: 0, preimage, ref_counted };
	let key = TableKey::Partial(kani::any());
	let tier: u8 = kani::any();
	kani::assume(tier < 4);
	let offset: u64 = kani::any();
	kani::assume(offset < (1u64 << 40));
	let address = Address::new(offset, tier);
	let len: usize = kani::any();
	kani::assume(len <= 0x10000);
	let buf = [0u8; 0x10000];
	let value: &[u8] = &buf[..len];
	let change: Operation<u8, &[u8]> = match op {
		0 => Operation::Set(0, value),
		1 => Operation::Reference(0),
		_ => Operation::Dereference(0),
	};
	let overlays = crate::parking_lot::RwLock::new(crate::log::LogOverlays::with_columns(0));
	let mut w = crate::log::LogWriter::new(&overlays, 7);
	unsafe {
		DC_N = 0;
		DC_NEW_OFFSET = kani::any();
		DC_DEC_ALIVE = kani::any();
	}
	kani::assume(unsafe { DC_NEW_OFFSET } < (1u64 << 40));
	let r = ok(Column::write_existing_value_plan(&key, tr, address, &change, &mut w, None, ref_counted));
	let n = unsafe { DC_N };
	let tid = |i: usize| -> u16 { tables[i].id.as_u16() };
	let hdr = 2 + if ref_counted { 4 } else { 0 } + 26;
	let fits = |s: u16| -> bool { s as usize >= hdr && len <= s as usize - hdr };
	match r {
		None => assert!(false, "U8d.no_error_for_key_value_operations"),
		Some((outcome, new_addr)) => {
			if op == 1 {
				// Reference: +1 on a counting column, ignored otherwise; the value is never rewritten
				if ref_counted {
					assert!(n == 1 && unsafe { DC_KIND[0] } == 4 && unsafe { DC_TABLE[0] } == tid(tier as usize) && unsafe { DC_INDEX[0] } == offset, "U8d.reference.increments_in_place");
					assert!(matches!(outcome, Some(PlanOutcome::Written)) && new_addr.is_none(), "U8d.reference.outcome");
				} else {
					assert!(n == 0 && matches!(outcome, Some(PlanOutcome::Skipped)) && new_addr.is_none(), "U8d.reference.ignored_without_counting");
				}
			} else if op == 0 && ref_counted {
				// Set on an existing key of a counting column is an increment; the stored value is untouched
				assert!(n == 1 && unsafe { DC_KIND[0] } == 4 && unsafe { DC_TABLE[0] } == tid(tier as usize) && unsafe { DC_INDEX[0] } == offset, "U8d.set_rc.is_increment_value_untouched");
				assert!(matches!(outcome, Some(PlanOutcome::Written)) && new_addr.is_none(), "U8d.set_rc.outcome");
			} else if op == 0 && preimage {
				assert!(n == 0 && matches!(outcome, Some(PlanOutcome::Skipped)) && new_addr.is_none(), "U8d.set_preimage.skipped");
			} else if op == 0 {
				// Set: the new value is written either over the key's entry (same table, same slot) or into another table after
				// the old entry was released, and then the new address is reported. That the receiving table can hold the value
				// is the callee precondition asserted by the recorders (U8d.callee_pre.*); WHICH fitting table is chosen is a space
				// policy and is not asserted.
				if n == 1 {
					assert!(unsafe { DC_KIND[0] } == 1 && unsafe { DC_TABLE[0] } == tid(tier as usize) && unsafe { DC_INDEX[0] } == offset && unsafe { DC_LEN[0] } == len, "U8d.set.in_place_rewrites_the_entry_of_the_key");
					assert!(matches!(outcome, Some(PlanOutcome::Written)) && new_addr.is_none(), "U8d.set.in_place_outcome");
				} else {
					assert!(n == 2 && unsafe { DC_KIND[0] } == 2 && unsafe { DC_TABLE[0] } == tid(tier as usize) && unsafe { DC_INDEX[0] } == offset, "U8d.set.move_releases_old_entry");
					assert!(unsafe { DC_KIND[1] } == 3 && unsafe { DC_LEN[1] } == len, "U8d.set.move_inserts_the_value");
					assert!(outcome.is_none(), "U8d.set.move_outcome");
					match new_addr {
						Some(a) => {
							let t1 = unsafe { DC_TABLE[1] };
							// the address carries the position of the table in the column's table vector
							let named = if (a.size_tier() as usize) < 4 { tid(a.size_tier() as usize) } else { 0xffff };
							assert!(named == t1, "U8d.set.new_address_names_the_table_written_to");
							assert!(a.offset() == unsafe { DC_NEW_OFFSET }, "U8d.set.new_address_names_inserted_slot");
						},
						None => assert!(false, "U8d.set.new_address_reported"),
					}
				}
			} else {
				// Dereference
				if ref_counted {
					assert!(n == 1 && unsafe { DC_KIND[0] } == 5 && unsafe { DC_TABLE[0] } == tid(tier as usize) && unsafe { DC_INDEX[0] } == offset, "U8d.dereference_rc.decrements_in_place");
					if unsafe { DC_DEC_ALIVE } {
						assert!(matches!(outcome, Some(PlanOutcome::Written)) && new_addr.is_none(), "U8d.dereference_rc.alive_keeps_index_entry");
					} else {
						assert!(outcome.is_none() && new_addr.is_none(), "U8d.dereference_rc.zero_reports_removal");
					}
				} else {
					assert!(n == 1 && unsafe { DC_KIND[0] } == 2 && unsafe { DC_TABLE[0] } == tid(tier as usize) && unsafe { DC_INDEX[0] } == offset, "U8d.dereference.removes_entry");
					assert!(outcome.is_none() && new_addr.is_none(), "U8d.dereference.reports_removal");
				}
			}
		},
	}
	kani::cover!(op == 0 && !ref_counted && !preimage && n == 2, "opt: set moves tier");
	kani::cover!(op == 0 && !ref_counted && !preimage && n == 1, "opt: set in place");
	std::mem::forget(tables);
}
dispatch_harness!(#[kani::unwind(6)] u8d_set_plain, u8_dispatch(0, false, false));
dispatch_harness!(#[kani::unwind(6)] u8d_set_rc, u8_dispatch(0, true, false));
dispatch_harness!(#[kani::unwind(6)] u8d_set_preimage, u8_dispatch(0, false, true));
dispatch_harness!(#[kani::unwind(6)] u8d_reference_rc, u8_dispatch(1, true, false));
dispatch_harness!(#[kani::unwind(6)] u8d_reference_plain, u8_dispatch(1, false, false));
dispatch_harness!(#[kani::unwind(6)] u8d_dereference_rc, u8_dispatch(2, true, false));
dispatch_harness!(#[kani::unwind(6)] u8d_dereference_plain, u8_dispatch(2, false, false));


// ================================================================== U15: index/value plan composition in HashColumn
// write_reindex_plan_locked, write_plan_new, write_plan_existing with their callees replaced by contracts:
//   IndexTable::write_insert_plan  -> Written | NeedReindex (page full / address overflow), contract = U3 lifted through the log view
//   IndexTable::write_remove_plan  -> Written | Skipped                                   , contract = U3
//   HashColumn::trigger_reindex    -> same locks, a fresh larger current index (identity on the guards here)
//   Column::write_new_value_plan / write_existing_value_plan -> U6 / U8d
//   HashColumn::contains_partial_key_with_address -> U13
pub(crate) static mut IX_N: usize = 0;
pub(crate) static mut IX_KIND: [u8; 6] = [0; 6]; // 1 insert, 2 remove
pub(crate) static mut IX_TABLE: [u16; 6] = [0; 6];
pub(crate) static mut IX_ADDR: [u64; 6] = [0; 6];
pub(crate) static mut IX_SUB: [i64; 6] = [0; 6]; // -1 = None
pub(crate) static mut IX_KEY0: [u8; 6] = [0; 6];
pub(crate) static mut IX_RET_WRITTEN: [bool; 6] = [false; 6];
pub(crate) static mut IX_NEED: usize = 0; // how many further insert attempts answer NeedReindex
pub(crate) static mut TRIG_N: usize = 0;
pub(crate) static mut NEW_ADDR: u64 = 0;
pub(crate) static mut CONTAINS: bool = false;
pub(crate) static mut EXIST_OUT: u8 = 0; // 0: (Some(Written),None) 1: (Some(Skipped),None) 2: (None,Some(addr)) 3: (None,None)
pub(crate) fn stub_ix_insert(t: &IndexTable, key: &Key, address: Address, sub_index: Option<usize>, _log: &mut LogWriter) -> Result<PlanOutcome> {
	unsafe {
		assert!(IX_N < 6, "verif: too many index operations");
		IX_KIND[IX_N] = 1;
		IX_TABLE[IX_N] = t.id.as_u16();
		IX_ADDR[IX_N] = address.as_u64();
		IX_SUB[IX_N] = match sub_index {
			Some(i) => i as i64,
			None => -1,
		};
		IX_KEY0[IX_N] = key[0];
		let written = IX_NEED == 0;
		IX_RET_WRITTEN[IX_N] = written;
		IX_N += 1;
		if written {
			Ok(PlanOutcome::Written)
		} else {
			IX_NEED -= 1;
			Ok(PlanOutcome::NeedReindex)
		}
	}
}
pub(crate) fn stub_ix_remove(t: &IndexTable, key: &Key, sub_index: usize, _log: &mut LogWriter) -> Result<PlanOutcome> {
	unsafe {
		assert!(IX_N < 6, "verif: too many index operations");
		IX_KIND[IX_N] = 2;
		IX_TABLE[IX_N] = t.id.as_u16();
		IX_SUB[IX_N] = sub_index as i64;
		IX_KEY0[IX_N] = key[0];
		IX_N += 1;
	}
	Ok(PlanOutcome::Written)
}
pub(crate) fn stub_trigger_reindex<'a, 'b>(
	tables: RwLockUpgradableReadGuard<'a, Tables>,
	reindex: RwLockUpgradableReadGuard<'b, Reindex>,
	_path: &std::path::Path,
) -> (RwLockUpgradableReadGuard<'a, Tables>, RwLockUpgradableReadGuard<'b, Reindex>) {
	unsafe {
		TRIG_N += 1;
	}
	(tables, reindex)
}
pub(crate) fn stub_new_value(_key: &TableKey, _tables: TablesRef, _val: &[u8], _log: &mut LogWriter, _stats: Option<&ColumnStats>) -> Result<Address> {
	Ok(Address::from_u64(unsafe { NEW_ADDR }))
}
pub(crate) fn stub_existing_value<K, V: AsRef<[u8]>>(
	_key: &TableKey,
	_tables: TablesRef,
	_address: Address,
	_change: &Operation<K, V>,
	_log: &mut LogWriter,
	_stats: Option<&ColumnStats>,
	_ref_counted: bool,
) -> Result<(Option<PlanOutcome>, Option<Address>)> {
	Ok(match unsafe { EXIST_OUT } {
		0 => (Some(PlanOutcome::Written), None),
		1 => (Some(PlanOutcome::Skipped), None),
		2 => (None, Some(Address::from_u64(unsafe { NEW_ADDR }))),
		_ => (None, None),
	})
}
pub(crate) fn stub_contains(_key: &Key, _address: Address, _index: &IndexTable, _log: &LogWriter) -> Result<bool> {
	Ok(unsafe { CONTAINS })
}
macro_rules! plan_harness {
	($(#[$m:meta])* $name:ident, $body:expr) => {
		#[kani::proof]
		$(#[$m])*
		#[kani::stub(crate::index::IndexTable::write_insert_plan, stub_ix_insert)]
		#[kani::stub(crate::index::IndexTable::write_remove_plan, stub_ix_remove)]
		#[kani::stub(super::HashColumn::trigger_reindex, stub_trigger_reindex)]
		#[kani::stub(super::Column::write_new_value_plan, stub_new_value)]
		#[kani::stub(super::Column::write_existing_value_plan, stub_existing_value)]
		#[kani::stub(super::HashColumn::contains_partial_key_with_address, stub_contains)]
		#[kani::stub(std::hash::RandomState::new, crate::verif_stubs::random_state_new)]
		#[kani::stub(parking_lot::RawRwLock::lock_shared_slow, crate::verif_stubs::lock_shared_slow)]
		#[kani::stub(parking_lot::RawRwLock::unlock_shared_slow, crate::verif_stubs::unlock_shared_slow)]
		#[kani::stub(parking_lot::RawRwLock::lock_exclusive_slow, crate::verif_stubs::lock_exclusive_slow)]
		#[kani::stub(parking_lot::RawRwLock::unlock_exclusive_slow, crate::verif_stubs::unlock_exclusive_slow)]
		#[kani::stub(parking_lot::RawRwLock::lock_upgradable_slow, crate::verif_stubs::lock_upgradable_slow)]
		#[kani::stub(parking_lot::RawRwLock::unlock_upgradable_slow, crate::verif_stubs::unlock_upgradable_slow)]
		#[kani::stub(std::fmt::format, crate::verif_stubs::fmt_format)]
		fn $name() {
			$body
		}
	};
}
pub(crate) fn mk_hash_column(bits: u8, ref_counted: bool) -> HashColumn {
	let path = std::path::PathBuf::new();
	HashColumn {
		col: 0,
		tables: RwLock::new(Tables {
			index: crate::index::verif_index::mk_table(0, bits),
			value: Vec::new(),
			ref_count: None,
		}),
		reindex: RwLock::new(Reindex { queue: VecDeque::new(), progress: AtomicU64::new(0) }),
		ref_count_cache: None,
		path,
		preimage: false,
		uniform_keys: false,
		collect_stats: false,
		ref_counted,
		append_only: false,
		salt: [0u8; 32],
		// never touched (collect_stats is false) and never dropped: left uninitialised to keep allocation loops out of the harness
		stats: unsafe { std::mem::MaybeUninit::uninit().assume_init() },
		compression: Compress::new(crate::compress::CompressionType::NoCompression, u32::MAX),
		db_version: crate::options::CURRENT_VERSION,
	}
}
fn mk_hash_column_with_table(bits: u8, ref_counted: bool) -> HashColumn {
	let path = std::path::PathBuf::new();
	HashColumn {
		col: 0,
		tables: RwLock::new(Tables {
			index: crate::index::verif_index::mk_table(0, bits),
			value: vec![crate::table::verif_table::mk_table_tier(64, false, ref_counted, 0)],
			ref_count: None,
		}),
		reindex: RwLock::new(Reindex { queue: VecDeque::new(), progress: AtomicU64::new(0) }),
		ref_count_cache: None,
		path,
		preimage: false,
		uniform_keys: false,
		collect_stats: false,
		ref_counted,
		append_only: false,
		salt: [0u8; 32],
		stats: unsafe { std::mem::MaybeUninit::uninit().assume_init() },
		compression: Compress::new(crate::compress::CompressionType::NoCompression, u32::MAX),
		db_version: crate::options::CURRENT_VERSION,
	}
}
fn plan_reset(need: usize) {
	unsafe {
		IX_N = 0;
		TRIG_N = 0;
		IX_NEED = need;
		NEW_ADDR = kani::any();
		CONTAINS = kani::any();
		EXIST_OUT = kani::any();
	}
	kani::assume(unsafe { EXIST_OUT } < 4);
}
// retry contract shared by write_reindex_plan_locked and write_plan_new: whenever the index answers NeedReindex a
// bigger index is started and the insertion is retried there, so that on return the entry *is* in the current index
fn check_retry(need: usize, address: u64, key0: u8) {
	let (n, trig) = unsafe { (IX_N, TRIG_N) };
	assert!(n == need + 1, "U15.retry.one_attempt_per_full_index_plus_the_successful_one");
	assert!(trig == need, "U15.retry.growth_started_for_every_failed_attempt");
	assert!(unsafe { IX_RET_WRITTEN[n - 1] }, "U15.retry.entry_is_in_current_index_on_return");
	let a: usize = kani::any();
	kani::assume(a < n);
	assert!(unsafe { IX_KIND[a] } == 1 && unsafe { IX_ADDR[a] } == address && unsafe { IX_SUB[a] } == -1 && unsafe { IX_KEY0[a] } == key0, "U15.retry.every_attempt_inserts_this_entry_into_a_free_slot");
}
fn u15_reindex_plan(need: usize) {
	let col: &'static HashColumn = Box::leak(Box::new(mk_hash_column(16, false)));
	plan_reset(need);
	let key: Key = kani::any();
	let addr: u64 = kani::any();
	// everything the harness builds is leaked: drops at the end of a harness are irrelevant to the claim
	let overlays: &'static RwLock<crate::log::LogOverlays> = Box::leak(Box::new(RwLock::new(crate::log::LogOverlays::with_columns(0))));
	let w: &'static mut crate::log::LogWriter<'static> = Box::leak(Box::new(crate::log::LogWriter::new(overlays, 7)));
	let tl = col.tables.upgradable_read();
	let rl = col.reindex.upgradable_read();
	let r = ok(col.write_reindex_plan_locked(tl, rl, &key, Address::from_u64(addr), &mut *w));
	match r {
		None => assert!(false, "U15.reindex_plan.no_error"),
		Some(outcome) => {
			if unsafe { CONTAINS } {
				// already migrated: not copied twice
				assert!(unsafe { IX_N } == 0 && unsafe { TRIG_N } == 0 && matches!(outcome, PlanOutcome::Skipped), "U15.reindex_plan.already_present_is_skipped");
			} else {
				check_retry(need, addr, key[0]);
				assert!(matches!(outcome, PlanOutcome::NeedReindex) == (need > 0), "U15.reindex_plan.reports_growth_to_caller");
				assert!(matches!(outcome, PlanOutcome::Written) == (need == 0), "U15.reindex_plan.written_when_no_growth");
			}
		},
	}
}
fn u15_plan_new(need: usize) {
	let col: &'static HashColumn = Box::leak(Box::new(mk_hash_column(16, false)));
	plan_reset(need);
	let key: Key = kani::any();
	let value = [0u8; 4];
	// everything the harness builds is leaked: drops at the end of a harness are irrelevant to the claim
	let overlays: &'static RwLock<crate::log::LogOverlays> = Box::leak(Box::new(RwLock::new(crate::log::LogOverlays::with_columns(0))));
	let w: &'static mut crate::log::LogWriter<'static> = Box::leak(Box::new(crate::log::LogWriter::new(overlays, 7)));
	let tl = col.tables.upgradable_read();
	let rl = col.reindex.upgradable_read();
	let r = ok(col.write_plan_new(tl, rl, &key, &value, &mut *w));
	match r {
		None => assert!(false, "U15.plan_new.no_error"),
		Some((outcome, tl2, rl2)) => {
			// the address indexed is the one the value was stored at
			check_retry(need, unsafe { NEW_ADDR }, key[0]);
			assert!(matches!(outcome, PlanOutcome::NeedReindex) == (need > 0), "U15.plan_new.reports_growth_to_caller");
			std::mem::forget(tl2);
			std::mem::forget(rl2);
		},
	}
}
fn u15_plan_existing(in_current_index: bool) {
	let col: &'static HashColumn = Box::leak(Box::new(mk_hash_column(17, kani::any())));
	plan_reset(0);
	let key: Key = kani::any();
	let sub: usize = kani::any();
	kani::assume(sub < 64);
	let old_index: &'static IndexTable = Box::leak(Box::new(crate::index::verif_index::mk_table(0, 16)));
	// everything the harness builds is leaked: drops at the end of a harness are irrelevant to the claim
	let overlays: &'static RwLock<crate::log::LogOverlays> = Box::leak(Box::new(RwLock::new(crate::log::LogOverlays::with_columns(0))));
	let w: &'static mut crate::log::LogWriter<'static> = Box::leak(Box::new(crate::log::LogWriter::new(overlays, 7)));
	let tl = col.tables.read();
	let change: Operation<Key, RcValue> = Operation::Dereference(key);
	let existing = Address::from_u64(kani::any());
	let index: &IndexTable = if in_current_index { &tl.index } else { old_index };
	let r2 = ok(col.write_plan_existing(&tl, &change, &mut *w, index, sub, existing));
	// (second component: the address of a moved value the index had no room for; every index operation is accepted here)
	assert!(!matches!(r2, Some((_, Some(_)))), "U15.plan_existing.nothing_left_unindexed_when_the_index_accepts");
	let r = r2.map(|x| x.0);
	let n = unsafe { IX_N };
	match (r, unsafe { EXIST_OUT }) {
		(None, _) => assert!(false, "U15.plan_existing.no_error"),
		(Some(o), 0) => assert!(n == 0 && matches!(o, PlanOutcome::Written), "U15.plan_existing.value_updated_in_place_index_untouched"),
		(Some(o), 1) => assert!(n == 0 && matches!(o, PlanOutcome::Skipped), "U15.plan_existing.skipped_index_untouched"),
		(Some(o), 2) => {
			// the value moved: the key's index entry must point at the new address; the confirmed slot is replaced only if
			// it lives in the current index, otherwise a new entry is added there
			assert!(n == 1 && unsafe { IX_KIND[0] } == 1 && unsafe { IX_ADDR[0] } == unsafe { NEW_ADDR } && unsafe { IX_KEY0[0] } == key[0], "U15.plan_existing.moved_value_reindexed_at_new_address");
			assert!(unsafe { IX_TABLE[0] } == IndexTableId::new(0, 17).as_u16(), "U15.plan_existing.moved_value_indexed_in_current_index");
			assert!(unsafe { IX_SUB[0] } == if in_current_index { sub as i64 } else { -1 }, "U15.plan_existing.replaces_confirmed_slot_only_in_current_index");
			assert!(matches!(o, PlanOutcome::Written), "U15.plan_existing.moved_outcome");
		},
		(Some(o), _) => {
			// the value is gone: its index slot goes in the same plan, from the index it was found in
			assert!(n == 1 && unsafe { IX_KIND[0] } == 2 && unsafe { IX_SUB[0] } == sub as i64 && unsafe { IX_KEY0[0] } == key[0], "U15.plan_existing.removed_value_unindexed_in_same_plan");
			assert!(unsafe { IX_TABLE[0] } == index.id.as_u16(), "U15.plan_existing.unindexed_from_the_index_it_was_found_in");
			assert!(matches!(o, PlanOutcome::Written), "U15.plan_existing.removed_outcome");
		},
	}
	std::mem::forget(tl);
}
plan_harness!(#[kani::unwind(5)] u15_reindex_plan_need0, u15_reindex_plan(0));
plan_harness!(#[kani::unwind(5)] u15_reindex_plan_need1, u15_reindex_plan(1));
plan_harness!(#[kani::unwind(5)] u15_reindex_plan_need2, u15_reindex_plan(2));
plan_harness!(#[kani::unwind(5)] u15_plan_new_need0, u15_plan_new(0));
plan_harness!(#[kani::unwind(5)] u15_plan_new_need1, u15_plan_new(1));
plan_harness!(#[kani::unwind(5)] u15_plan_new_need2, u15_plan_new(2));
plan_harness!(#[kani::unwind(5)] u15_plan_existing_current, u15_plan_existing(true));
plan_harness!(#[kani::unwind(5)] u15_plan_existing_old, u15_plan_existing(false));


// ================================================================== U16: index walk used by migration / validation (iter_index_internal)
pub(crate) static mut WALK_ENTRIES: [u64; 64] = [0; 64];
pub(crate) static mut WALK_CHUNK: u64 = 0;
pub(crate) static mut META_N: usize = 0;
pub(crate) static mut META_RC: u32 = 0;
pub(crate) static mut META_PK: [u8; 26] = [0; 26];
pub(crate) fn stub_entries<L: LogQuery>(_t: &IndexTable, chunk_index: u64, _log: &L) -> Result<[crate::index::Entry; 64]> {
	// contract of IndexTable::entries: the 64 entries of the chunk (log overlay first, then file): U1.transmute_is_le_word
	unsafe {
		WALK_CHUNK = chunk_index;
		Ok(std::mem::transmute::<[u64; 64], [crate::index::Entry; 64]>(WALK_ENTRIES))
	}
}
pub(crate) fn stub_get_with_meta<L: LogQuery>(_t: &ValueTable, _index: u64, _log: &L) -> Result<Option<(Value, u32, [u8; 26], bool)>> {
	// contract of ValueTable::get_with_meta (U6.R): the stored value, counter and key tail of a live entry
	unsafe {
		META_N += 1;
		Ok(Some((Vec::new(), META_RC, META_PK, false)))
	}
}
pub(crate) static mut SEEN_N: usize = 0;
pub(crate) static mut SEEN_KEY: [[u8; 32]; 4] = [[0u8; 32]; 4];
pub(crate) static mut SEEN_RC: [u32; 4] = [0; 4];
#[kani::proof]
#[kani::unwind(66)]
#[kani::solver(kissat)]
#[kani::stub(crate::index::IndexTable::entries, stub_entries)]
#[kani::stub(crate::table::ValueTable::get_with_meta, stub_get_with_meta)]
#[kani::stub(std::hash::RandomState::new, crate::verif_stubs::random_state_new)]
#[kani::stub(parking_lot::RawRwLock::lock_shared_slow, crate::verif_stubs::lock_shared_slow)]
#[kani::stub(parking_lot::RawRwLock::unlock_shared_slow, crate::verif_stubs::unlock_shared_slow)]
#[kani::stub(parking_lot::RawRwLock::lock_exclusive_slow, crate::verif_stubs::lock_exclusive_slow)]
#[kani::stub(parking_lot::RawRwLock::unlock_exclusive_slow, crate::verif_stubs::unlock_exclusive_slow)]
#[kani::stub(std::fmt::format, crate::verif_stubs::fmt_format)]
fn u16_index_walk_visits_every_live_entry() {
	// kept on the stack and never dropped (a move to the heap is a byte copy that hides the index size from the symbolic executor)
	let col = std::mem::ManuallyDrop::new(mk_hash_column_with_table(16, true));
	// an arbitrary index page whose live entries point into tier 0
	// four slots are arbitrary (live or empty, any address in tier 0), the other 60 are empty
	let mut page = [0u64; 64];
	let a: [u64; 4] = kani::any();
	kani::assume(a[0] & 0xff == 0 && a[1] & 0xff == 0 && a[2] & 0xff == 0 && a[3] & 0xff == 0);
	page[0] = a[0];
	page[1] = a[1];
	page[37] = a[2];
	page[63] = a[3];
	unsafe {
		WALK_ENTRIES = page;
		META_N = 0;
		SEEN_N = 0;
		META_RC = kani::any();
		META_PK = kani::any();
	}
	let log: &'static crate::log::Log = Box::leak(Box::new(crate::log::verif_log::mk_log()));
	let last_chunk = (1u64 << 16) - 1;
	let r = ok(col.iter_index_internal(
		log,
		|st| {
			unsafe {
				if let IterStateOrCorrupted::Item(s) = st {
					if SEEN_N < 4 {
						SEEN_KEY[SEEN_N] = s.key;
						SEEN_RC[SEEN_N] = s.rc;
					}
					std::mem::forget(s.value);
				}
				SEEN_N += 1;
			}
			Ok(true)
		},
		last_chunk,
	));
	assert!(r.is_some(), "U16.index_walk.no_error");
	// count the live entries and locate the k-th one
	let mut live = 0usize;
	let k: usize = kani::any();
	let mut kth: u64 = 0;
	let mut j = 0;
	while j < 64 {
		if page[j] != 0 {
			if live == k {
				kth = page[j];
			}
			live += 1;
		}
		j += 1;
	}
	let n = unsafe { SEEN_N };
	assert!(n == live, "U16.index_walk.callback_once_per_live_entry");
	assert!(unsafe { META_N } >= live, "U16.index_walk.value_fetched_for_every_live_entry");
	if k < live {
		// the k-th callback carries the k-th live entry: key = recovered prefix ++ stored tail, count as stored
		let t = col.tables.read();
		let exp = t.index.recover_key_prefix(last_chunk, crate::index::Entry::from_u64_verif(kth));
		let q: usize = kani::any();
		kani::assume(q < 32);
		let got = unsafe { SEEN_KEY[k][q] };
		assert!(got == if q < 6 { exp[q] } else { unsafe { META_PK[q - 6] } }, "U16.index_walk.key_is_recovered_prefix_plus_stored_tail");
		assert!(unsafe { SEEN_RC[k] } == unsafe { META_RC }, "U16.index_walk.reports_stored_count");
		std::mem::forget(t);
	}
	kani::cover!(live >= 2 && page[0] == 0, "live entries behind an empty slot");
}


// ================================================================== U17: value iteration visits every value table of the column
pub(crate) static mut ITV_N: usize = 0;
pub(crate) static mut ITV_TIER: [u8; 256] = [0; 256];
pub(crate) static mut ITV_CB: usize = 0;
pub(crate) fn stub_iter_while<L: LogQuery, F: FnMut(u64, u32, Vec<u8>, bool) -> bool>(t: &ValueTable, _log: &L, mut f: F) -> Result<()> {
	// contract of ValueTable::iter_while: calls `f` for the live entries of this table (here: one live entry per table)
	unsafe {
		if ITV_N < 256 {
			ITV_TIER[ITV_N] = t.id.size_tier();
		}
		ITV_N += 1;
	}
	let _ = f(1, 7, Vec::new(), false);
	Ok(())
}
#[kani::proof]
#[kani::unwind(6)]
#[kani::stub(crate::table::ValueTable::iter_while, stub_iter_while)]
#[kani::stub(std::hash::RandomState::new, crate::verif_stubs::random_state_new)]
#[kani::stub(parking_lot::RawRwLock::lock_shared_slow, crate::verif_stubs::lock_shared_slow)]
#[kani::stub(parking_lot::RawRwLock::unlock_shared_slow, crate::verif_stubs::unlock_shared_slow)]
#[kani::stub(parking_lot::RawRwLock::lock_exclusive_slow, crate::verif_stubs::lock_exclusive_slow)]
#[kani::stub(parking_lot::RawRwLock::unlock_exclusive_slow, crate::verif_stubs::unlock_exclusive_slow)]
#[kani::stub(std::fmt::format, crate::verif_stubs::fmt_format)]
fn u17_iter_values_visits_every_table() {
	// the contract does not depend on how many value tables the column has: three here (the real column has 256; building
	// 256 tables on the heap exceeds the CBMC budget)
	let col = std::mem::ManuallyDrop::new(HashColumn {
		col: 0,
		tables: RwLock::new(Tables {
			index: crate::index::verif_index::mk_table(0, 16),
			value: vec![
				crate::table::verif_table::mk_table_tier(32, false, true, 0),
				crate::table::verif_table::mk_table_tier(33, false, true, 1),
				crate::table::verif_table::mk_table_tier(4096, true, true, 255),
			],
			ref_count: None,
		}),
		reindex: RwLock::new(Reindex { queue: VecDeque::new(), progress: AtomicU64::new(0) }),
		ref_count_cache: None,
		path: std::path::PathBuf::new(),
		preimage: false,
		uniform_keys: false,
		collect_stats: false,
		ref_counted: true,
		append_only: false,
		salt: [0u8; 32],
		stats: unsafe { std::mem::MaybeUninit::uninit().assume_init() },
		compression: Compress::new(crate::compress::CompressionType::NoCompression, u32::MAX),
		db_version: crate::options::CURRENT_VERSION,
	});
	unsafe {
		ITV_N = 0;
		ITV_CB = 0;
	}
	let log = std::mem::ManuallyDrop::new(crate::log::verif_log::mk_log());
	let r = ok(col.iter_values(&log, |st| {
		unsafe {
			ITV_CB += 1;
		}
		st.rc == 7
	}));
	assert!(r.is_some(), "U17.iter_values.no_error");
	assert!(unsafe { ITV_N } == 3, "U17.iter_values.every_value_table_visited_once");
	// every table, the chained-storage table included, exactly once (iteration order is unspecified by the API: not asserted)
	let tiers = unsafe { [ITV_TIER[0], ITV_TIER[1], ITV_TIER[2]] };
	assert!(tiers.contains(&0) && tiers.contains(&1) && tiers.contains(&255), "U17.iter_values.every_table_including_the_blob_table_is_visited");
	assert!(unsafe { ITV_CB } == 3, "U17.iter_values.callback_receives_every_live_value_with_its_count");
}


// ================================================================== U19 (hash columns): maintenance passes reach every value table
pub(crate) static mut HRM_N: usize = 0;
pub(crate) static mut HCP_N: usize = 0;
pub(crate) fn stub_h_refresh_metadata(_t: &ValueTable) -> Result<()> {
	unsafe {
		HRM_N += 1;
	}
	Ok(())
}
pub(crate) fn stub_h_complete_plan(_t: &ValueTable, _log: &mut LogWriter) -> Result<()> {
	unsafe {
		HCP_N += 1;
	}
	Ok(())
}
#[kani::proof]
#[kani::unwind(6)]
#[kani::stub(crate::table::ValueTable::refresh_metadata, stub_h_refresh_metadata)]
#[kani::stub(crate::table::ValueTable::complete_plan, stub_h_complete_plan)]
#[kani::stub(std::hash::RandomState::new, crate::verif_stubs::random_state_new)]
#[kani::stub(parking_lot::RawRwLock::lock_shared_slow, crate::verif_stubs::lock_shared_slow)]
#[kani::stub(parking_lot::RawRwLock::unlock_shared_slow, crate::verif_stubs::unlock_shared_slow)]
#[kani::stub(parking_lot::RawRwLock::lock_exclusive_slow, crate::verif_stubs::lock_exclusive_slow)]
#[kani::stub(parking_lot::RawRwLock::unlock_exclusive_slow, crate::verif_stubs::unlock_exclusive_slow)]
#[kani::stub(std::fmt::format, crate::verif_stubs::fmt_format)]
fn u19_hash_column_maintenance_reaches_every_table() {
	let col = std::mem::ManuallyDrop::new(Column::Hash(mk_hash_column_with_table(16, false)));
	unsafe {
		HRM_N = 0;
		HCP_N = 0;
	}
	assert!(ok(col.refresh_metadata()).is_some(), "U19.hash.refresh_metadata.no_error");
	assert!(unsafe { HRM_N } == 1, "U19.hash.refresh_metadata_reaches_every_value_table");
	let overlays: &'static RwLock<crate::log::LogOverlays> = Box::leak(Box::new(RwLock::new(crate::log::LogOverlays::with_columns(0))));
	let w: &'static mut LogWriter<'static> = Box::leak(Box::new(LogWriter::new(overlays, 7)));
	assert!(ok(col.complete_plan(&mut *w)).is_some(), "U19.hash.complete_plan.no_error");
	assert!(unsafe { HCP_N } == 1, "U19.hash.complete_plan_reaches_every_value_table");
}


// ================================================================== U20: reindex batch builder (HashColumn::reindex)
pub(crate) static mut RB_PAGE: [[u64; 64]; 2] = [[0; 64]; 2];
pub(crate) static mut RB_CALLS: usize = 0;
pub(crate) static mut RB_FIRST: u64 = 0;
pub(crate) fn stub_entries_rb<L: LogQuery>(_t: &IndexTable, chunk_index: u64, _log: &L) -> Result<[crate::index::Entry; 64]> {
	unsafe {
		if RB_CALLS == 0 {
			RB_FIRST = chunk_index;
		}
		let k = if chunk_index == RB_FIRST { 0 } else { 1 };
		RB_CALLS += 1;
		Ok(std::mem::transmute::<[u64; 64], [crate::index::Entry; 64]>(RB_PAGE[k]))
	}
}
#[kani::proof]
#[kani::unwind(66)]
#[kani::solver(kissat)]
#[kani::stub(crate::index::IndexTable::entries, stub_entries_rb)]
#[kani::stub(std::hash::RandomState::new, crate::verif_stubs::random_state_new)]
#[kani::stub(parking_lot::RawRwLock::lock_shared_slow, crate::verif_stubs::lock_shared_slow)]
#[kani::stub(parking_lot::RawRwLock::unlock_shared_slow, crate::verif_stubs::unlock_shared_slow)]
#[kani::stub(parking_lot::RawRwLock::lock_exclusive_slow, crate::verif_stubs::lock_exclusive_slow)]
#[kani::stub(parking_lot::RawRwLock::unlock_exclusive_slow, crate::verif_stubs::unlock_exclusive_slow)]
#[kani::stub(std::fmt::format, crate::verif_stubs::fmt_format)]
fn u20_reindex_batch_copies_every_live_entry_and_advances() {
	// an old 16-bit index is queued behind a 17-bit current index; two chunks are left to migrate
	let total = 1u64 << 16;
	let mut queue = VecDeque::new();
	queue.push_back(ReindexEntry::Index(crate::index::verif_index::mk_table(0, 16)));
	let col = std::mem::ManuallyDrop::new(HashColumn {
		col: 0,
		tables: RwLock::new(Tables { index: crate::index::verif_index::mk_table(0, 17), value: Vec::new(), ref_count: None }),
		reindex: RwLock::new(Reindex { queue, progress: AtomicU64::new(total - 2) }),
		ref_count_cache: None,
		path: std::path::PathBuf::new(),
		preimage: false,
		uniform_keys: false,
		collect_stats: false,
		ref_counted: false,
		append_only: false,
		salt: [0u8; 32],
		stats: unsafe { std::mem::MaybeUninit::uninit().assume_init() },
		compression: Compress::new(crate::compress::CompressionType::NoCompression, u32::MAX),
		db_version: crate::options::CURRENT_VERSION,
	});
	// two arbitrary slots per chunk, the rest empty
	let a: [u64; 4] = kani::any();
	unsafe {
		RB_PAGE = [[0; 64]; 2];
		RB_PAGE[0][1] = a[0];
		RB_PAGE[0][63] = a[1];
		RB_PAGE[1][0] = a[2];
		RB_PAGE[1][40] = a[3];
		RB_CALLS = 0;
	}
	let log = std::mem::ManuallyDrop::new(crate::log::verif_log::mk_log());
	let r = ok(col.reindex(&log));
	let live = (a[0] != 0) as usize + (a[1] != 0) as usize + (a[2] != 0) as usize + (a[3] != 0) as usize;
	match r {
		None => assert!(false, "U20.reindex.no_error"),
		Some(batch) => {
			assert!(unsafe { RB_CALLS } == 2 && unsafe { RB_FIRST } == total - 2, "U20.reindex.resumes_at_recorded_progress_and_visits_each_chunk_once");
			assert!(batch.batch.len() == live, "U20.reindex.batch_holds_every_live_entry_once");
			// the k-th batch element is the k-th live entry: its address, and the key prefix recovered from (chunk, entry)
			let order: [(u64, u64); 4] = [(total - 2, a[0]), (total - 2, a[1]), (total - 1, a[2]), (total - 1, a[3])];
			let k: usize = kani::any();
			kani::assume(k < live);
			let mut seen = 0usize;
			let mut j = 0;
			let mut chunk = 0u64;
			let mut ent = 0u64;
			while j < 4 {
				if order[j].1 != 0 {
					if seen == k {
						chunk = order[j].0;
						ent = order[j].1;
					}
					seen += 1;
				}
				j += 1;
			}
			let src = crate::index::verif_index::mk_table(0, 16);
			let e = crate::index::Entry::from_u64_verif(ent);
			let exp_key = src.recover_key_prefix(chunk, e);
			let q: usize = kani::any();
			kani::assume(q < 32);
			assert!(batch.batch[k].0[q] == exp_key[q], "U20.reindex.batch_key_is_recovered_prefix");
			assert!(batch.batch[k].1.as_u64() == e.address(16).as_u64(), "U20.reindex.batch_address_is_entry_address");
			assert!(col.reindex.read().progress.load(Ordering::Relaxed) == total, "U20.reindex.progress_advanced_past_processed_chunks");
			assert!(batch.drop_index == Some(IndexTableId::new(0, 16)), "U20.reindex.old_index_dropped_only_when_fully_migrated");
			assert!(batch.ref_count_batch.len() == 0 && batch.drop_ref_count.is_none(), "U20.reindex.ref_counts_untouched");
			std::mem::forget(batch);
			std::mem::forget(src);
		},
	}
	kani::cover!(live == 4, "all four live");
	kani::cover!(live == 1 && a[3] != 0, "only the last");
}


// ================================================================== U22: growth bookkeeping (trigger_reindex, drop_index)
pub(crate) static mut DROPFILE_N: usize = 0;
pub(crate) static mut DROPFILE_ID: u16 = 0;
pub(crate) fn stub_drop_file(t: IndexTable) -> Result<()> {
	unsafe {
		DROPFILE_N += 1;
		DROPFILE_ID = t.id.as_u16();
	}
	std::mem::forget(t);
	Ok(())
}
macro_rules! growth_harness {
	($(#[$m:meta])* $name:ident, $body:expr) => {
		#[kani::proof]
		$(#[$m])*
		#[kani::stub(crate::index::IndexTable::drop_file, stub_drop_file)]
		#[kani::stub(std::hash::RandomState::new, crate::verif_stubs::random_state_new)]
		#[kani::stub(parking_lot::RawRwLock::lock_shared_slow, crate::verif_stubs::lock_shared_slow)]
		#[kani::stub(parking_lot::RawRwLock::unlock_shared_slow, crate::verif_stubs::unlock_shared_slow)]
		#[kani::stub(parking_lot::RawRwLock::lock_exclusive_slow, crate::verif_stubs::lock_exclusive_slow)]
		#[kani::stub(parking_lot::RawRwLock::unlock_exclusive_slow, crate::verif_stubs::unlock_exclusive_slow)]
		#[kani::stub(parking_lot::RawRwLock::lock_upgradable_slow, crate::verif_stubs::lock_upgradable_slow)]
		#[kani::stub(parking_lot::RawRwLock::unlock_upgradable_slow, crate::verif_stubs::unlock_upgradable_slow)]
		#[kani::stub(parking_lot::RawRwLock::upgrade_slow, crate::verif_stubs::upgrade_slow)]
		#[kani::stub(parking_lot::RawRwLock::downgrade_slow, crate::verif_stubs::downgrade_slow)]
		#[kani::stub(parking_lot::RawRwLock::downgrade_to_upgradable_slow, crate::verif_stubs::downgrade_to_upgradable_slow)]
		#[kani::stub(std::fmt::format, crate::verif_stubs::fmt_format)]
		fn $name() {
			$body
		}
	};
}
fn mk_growing_column(progress: u64) -> HashColumn {
	// current index 18 bits; older indexes of 16 and 17 bits are still queued (two growths in flight)
	let mut queue = VecDeque::new();
	queue.push_back(ReindexEntry::Index(crate::index::verif_index::mk_table(0, 16)));
	queue.push_back(ReindexEntry::Index(crate::index::verif_index::mk_table(0, 17)));
	HashColumn {
		col: 0,
		tables: RwLock::new(Tables { index: crate::index::verif_index::mk_table(0, 18), value: Vec::new(), ref_count: None }),
		reindex: RwLock::new(Reindex { queue, progress: AtomicU64::new(progress) }),
		ref_count_cache: None,
		path: std::path::PathBuf::new(),
		preimage: false,
		uniform_keys: false,
		collect_stats: false,
		ref_counted: false,
		append_only: false,
		salt: [0u8; 32],
		stats: unsafe { std::mem::MaybeUninit::uninit().assume_init() },
		compression: Compress::new(crate::compress::CompressionType::NoCompression, u32::MAX),
		db_version: crate::options::CURRENT_VERSION,
	}
}
fn front_bits(col: &HashColumn) -> Option<u8> {
	match col.reindex.read().queue.front() {
		Some(ReindexEntry::Index(t)) => Some(t.id.index_bits()),
		_ => None,
	}
}
growth_harness!(#[kani::unwind(8)] u22_drop_index_advances_to_next_queued_index, {
	let p: u64 = kani::any();
	let col = std::mem::ManuallyDrop::new(mk_growing_column(p));
	unsafe {
		DROPFILE_N = 0;
	}
	// dropping anything but the front of the queue is refused and changes nothing
	assert!(ok(col.drop_index(IndexTableId::new(0, 17))).is_some(), "U22.drop_index.wrong_id_is_not_an_error");
	assert!(unsafe { DROPFILE_N } == 0 && col.reindex.read().queue.len() == 2 && front_bits(&col) == Some(16), "U22.drop_index.only_the_front_index_can_be_dropped");
	assert!(col.reindex.read().progress.load(Ordering::Relaxed) == p, "U22.drop_index.refused_drop_keeps_progress");
	// dropping the fully migrated front index: its file goes, the next queued index becomes the source and is scanned
	// from its first chunk
	assert!(ok(col.drop_index(IndexTableId::new(0, 16))).is_some(), "U22.drop_index.no_error");
	assert!(unsafe { DROPFILE_N } == 1 && unsafe { DROPFILE_ID } == IndexTableId::new(0, 16).as_u16(), "U22.drop_index.drops_the_file_of_the_front_index");
	assert!(col.reindex.read().queue.len() == 1 && front_bits(&col) == Some(17), "U22.drop_index.next_queued_index_becomes_the_source");
	assert!(col.reindex.read().progress.load(Ordering::Relaxed) == 0, "U22.drop_index.next_source_is_scanned_from_its_first_chunk");
	assert!(col.tables.read().index.id.index_bits() == 18, "U22.drop_index.current_index_untouched");
});
growth_harness!(#[kani::unwind(8)] u22_trigger_reindex_queues_the_old_index, {
	let p: u64 = kani::any();
	let col = std::mem::ManuallyDrop::new(mk_growing_column(p));
	{
		let tl = col.tables.upgradable_read();
		let rl = col.reindex.upgradable_read();
		let (tl2, rl2) = HashColumn::trigger_reindex(tl, rl, col.path.as_path());
		// a new, larger, empty current index; the previous one joins the *back* of the queue (older indexes are migrated first)
		assert!(tl2.index.id.index_bits() == 19 && tl2.index.id.col() == 0, "U22.trigger_reindex.current_index_is_one_bit_larger");
		assert!(rl2.queue.len() == 3, "U22.trigger_reindex.old_index_is_queued");
		assert!(matches!(rl2.queue.back(), Some(ReindexEntry::Index(t)) if t.id.index_bits() == 18), "U22.trigger_reindex.old_index_goes_to_the_back");
		assert!(matches!(rl2.queue.front(), Some(ReindexEntry::Index(t)) if t.id.index_bits() == 16), "U22.trigger_reindex.migration_source_unchanged");
		// frame: the migration of the front index continues where it was
		assert!(rl2.progress.load(Ordering::Relaxed) == p, "U22.trigger_reindex.progress_of_ongoing_migration_untouched");
		std::mem::forget(tl2);
		std::mem::forget(rl2);
	}
});


// ================================================================== U15c: lookups on the write path search the current index and every queued older index
// (the order of consultation is not fixed by the properties -- a key lives in one index at a time -- and is not asserted)
pub(crate) static mut SI_N: usize = 0;
pub(crate) static mut SI_HAS: [bool; 3] = [false; 3]; // which of the indexes (16, 17, 18 bits) holds the key
fn ix_of_bits(bits: u8) -> usize {
	assert!(bits >= 16 && bits <= 18, "verif: unknown index");
	(bits - 16) as usize
}
pub(crate) fn stub_search_index<'a>(_key: &Key, index: &'a IndexTable, _tables: &'a Tables, _log: &LogWriter) -> Result<Option<(&'a IndexTable, usize, Address)>> {
	unsafe {
		assert!(SI_N < 4, "verif: too many index searches");
		SI_N += 1;
		let k = ix_of_bits(index.id.index_bits());
		if SI_HAS[k] {
			Ok(Some((index, k, Address::from_u64(1000 + k as u64))))
		} else {
			Ok(None)
		}
	}
}
growth_harness!(#[kani::unwind(8)] #[kani::stub(super::HashColumn::search_index, stub_search_index)] u15_search_all_indexes_order, {
	let col = std::mem::ManuallyDrop::new(mk_growing_column(0));
	unsafe {
		SI_N = 0;
		SI_HAS = [kani::any(), kani::any(), kani::any()];
	}
	let key: Key = kani::any();
	let overlays: &'static RwLock<crate::log::LogOverlays> = Box::leak(Box::new(RwLock::new(crate::log::LogOverlays::with_columns(0))));
	let w: &'static mut crate::log::LogWriter<'static> = Box::leak(Box::new(crate::log::LogWriter::new(overlays, 7)));
	let tl = col.tables.read();
	let rl = col.reindex.read();
	let r = ok(HashColumn::search_all_indexes(&key, &tl, &rl, &*w));
	let has = unsafe { SI_HAS };
	match r {
		None => assert!(false, "U15.search_all.no_error"),
		Some(Some((t, sub, a))) => {
			// the reported index is one that holds the key, with the slot and address that index reported
			let k = ix_of_bits(t.id.index_bits());
			assert!(has[k], "U15.search_all.hit_only_if_some_index_has_the_key");
			assert!(sub == k && a.as_u64() == 1000 + k as u64, "U15.search_all.returns_what_the_index_holding_the_key_reported");
		},
		Some(None) => {
			// absent is reported only if the current index and every queued older index were searched without success
			assert!(!has[0] && !has[1] && !has[2], "U15.search_all.absent_only_if_no_index_has_the_key");
		},
	}
	std::mem::forget(tl);
	std::mem::forget(rl);
	kani::cover!(has[1] && !has[2], "reached");
});

// ================================================================== U29: point reads search the current index and every queued older index
pub(crate) static mut GI_N: usize = 0;
pub(crate) static mut GI_HAS: [bool; 3] = [false; 3];
pub(crate) static mut GI_RC: [u32; 3] = [0; 3];
// HashColumn::get_in_index by contract (U13, Verus): "the value stored for this key in this index, if any"
pub(crate) fn stub_get_in_index<L: LogQuery>(_c: &HashColumn, _key: &Key, index: &IndexTable, _tables: TablesRef, _log: &L) -> Result<Option<(u8, u32, Value)>> {
	unsafe {
		assert!(GI_N < 4, "verif: too many index lookups");
		GI_N += 1;
		let k = ix_of_bits(index.id.index_bits());
		if GI_HAS[k] {
			Ok(Some((k as u8, GI_RC[k], vec![0xa0 + k as u8, 7])))
		} else {
			Ok(None)
		}
	}
}
growth_harness!(#[kani::unwind(8)] #[kani::stub(super::HashColumn::get_in_index, stub_get_in_index)] u29_get_searches_current_then_every_queued_index, {
	let col = std::mem::ManuallyDrop::new(mk_growing_column(0));
	unsafe {
		GI_N = 0;
		GI_HAS = [kani::any(), kani::any(), kani::any()];
		GI_RC = [kani::any(), kani::any(), kani::any()];
	}
	let key: Key = kani::any();
	let log = crate::index::verif_index::GhostLog;
	let r = ok(col.get(&key, &log));
	let has = unsafe { GI_HAS };
	match r {
		None => assert!(false, "U29.get.no_error"),
		Some(Some((v, rc))) => {
			// the value comes from an index that holds the key (which one is searched first is not fixed by the property)
			assert!(v.len() == 2 && v[1] == 7 && v[0] >= 0xa0 && v[0] <= 0xa2, "U29.get.returns_a_value_some_index_reported");
			let k = (v[0] - 0xa0) as usize;
			assert!(has[k], "U29.get.hit_only_if_some_index_has_the_key");
			assert!(rc == unsafe { GI_RC[k] }, "U29.get.returns_that_index_ref_count");
			std::mem::forget(v);
		},
		Some(None) => {
			assert!(!has[0] && !has[1] && !has[2], "U29.get.absent_only_if_no_index_has_the_key");
		},
	}
	kani::cover!(has[1] && !has[2], "reached");
});
growth_harness!(#[kani::unwind(8)] #[kani::stub(super::HashColumn::get_in_index, stub_get_in_index)] u29_get_size_is_the_length_of_the_value, {
	let col = std::mem::ManuallyDrop::new(mk_growing_column(0));
	unsafe {
		GI_N = 0;
		GI_HAS = [kani::any(), kani::any(), kani::any()];
		GI_RC = [1, 1, 1];
	}
	let key: Key = kani::any();
	let overlays: &'static RwLock<crate::log::LogOverlays> = Box::leak(Box::new(RwLock::new(crate::log::LogOverlays::with_columns(0))));
	let r = ok(col.get_size(&key, overlays));
	let any_hit = unsafe { GI_HAS[0] || GI_HAS[1] || GI_HAS[2] };
	match r {
		None => assert!(false, "U29.get_size.no_error"),
		Some(Some(n)) => assert!(any_hit && n == 2, "U29.get_size.is_the_length_of_the_value_get_returns"),
		Some(None) => assert!(!any_hit, "U29.get_size.absent_iff_get_is_absent"),
	}
	kani::cover!(any_hit, "reached");
});

// ================================================================== U39: a value stored compressed is the compressor's output, and is decompressed exactly when the entry says so
pub(crate) static mut CZ_N: usize = 0;
pub(crate) static mut CZ_OUT_LEN: usize = 0;
// Compress::compress by contract: some byte string (its length is arbitrary: compression may expand)
pub(crate) fn stub_compress(_c: &crate::compress::Compress, _buf: &[u8]) -> Vec<u8> {
	unsafe {
		CZ_N += 1;
		let mut v = Vec::new();
		let n = CZ_OUT_LEN;
		if n > 0 {
			v.push(0xc0);
		}
		if n > 1 {
			v.push(0xc1);
		}
		if n > 2 {
			v.push(0xc2);
		}
		if n > 3 {
			v.push(0xc3);
		}
		v
	}
}
col_harness!(#[kani::unwind(6)] #[kani::stub(crate::compress::Compress::compress, stub_compress)] u39_compressed_form_is_the_compressor_output, {
	let tables = [mk_table(32, false, false, 1, 0), mk_table(4096, true, false, 1, 0)];
	let threshold: u32 = kani::any();
	let c = crate::compress::Compress::new(crate::compress::CompressionType::Lz4, threshold);
	let len: usize = kani::any();
	kani::assume(len <= 4);
	let out_len: usize = kani::any();
	kani::assume(out_len <= 4);
	unsafe {
		CZ_N = 0;
		CZ_OUT_LEN = out_len;
	}
	let buf = [7u8; 4];
	let (cval, tier) = Column::compress(&c, &TableKey::NoHash, &buf[..len], &tables);
	// when to compress is a policy (threshold, "only if it pays") the property does not fix; what it needs is that a value
	// reported as compressed IS the compressor's output for this value (so that decompression restores it)
	match &cval {
		Some(v) => {
			assert!(unsafe { CZ_N } == 1, "U39.compress.compressed_form_comes_from_one_compressor_call_on_this_value");
			assert!(v.len() == out_len && (out_len == 0 || v[0] == 0xc0), "U39.compress.stores_what_the_compressor_returned");
		},
		None => {},
	}
	assert!(tier == 0, "U39.compress.tier_chosen_by_the_stored_length");
	let cval_some = cval.is_some();
	std::mem::forget(cval);
	std::mem::forget(tables);
	kani::cover!(cval_some, "reached");
});
pub(crate) static mut QV_MODE: u8 = 0; // 0 absent, 1 plain, 2 compressed
pub(crate) static mut QV_RC: u32 = 0;
pub(crate) static mut QV_INDEX: u64 = 0;
pub(crate) static mut QV_TABLE: u8 = 0;
pub(crate) static mut DZ_N: usize = 0;
// ValueTable::query by contract (U6-R): the value stored at the slot with its compression flag and counter
pub(crate) fn stub_query<L: LogQuery>(t: &ValueTable, _key: &mut TableKeyQuery, index: u64, _log: &L) -> Result<Option<(Value, bool, u32)>> {
	unsafe {
		QV_INDEX = index;
		QV_TABLE = t.id.size_tier();
		match QV_MODE {
			0 => Ok(None),
			1 => Ok(Some((vec![0x11, 0x12], false, QV_RC))),
			_ => Ok(Some((vec![0x21, 0x22], true, QV_RC))),
		}
	}
}
// Compress::decompress by contract: the original of a compressed byte string
pub(crate) fn stub_decompress(_c: &crate::compress::Compress, buf: &[u8]) -> Result<Vec<u8>> {
	unsafe {
		DZ_N += 1;
	}
	assert!(buf.len() == 2 && buf[0] == 0x21, "U39.get_value.only_compressed_entries_are_decompressed");
	Ok(vec![0xd1, 0xd2, 0xd3])
}
col_harness!(#[kani::unwind(6)]
	#[kani::stub(crate::table::ValueTable::query, stub_query)]
	#[kani::stub(crate::compress::Compress::decompress, stub_decompress)]
	u39_value_decompressed_exactly_when_the_entry_is_compressed, {
	let tables = [crate::table::verif_table::mk_table_tier(32, false, true, 0), crate::table::verif_table::mk_table_tier(64, false, true, 1), crate::table::verif_table::mk_table_tier(128, false, true, 2)];
	let c = crate::compress::Compress::new(crate::compress::CompressionType::Lz4, 0);
	let tref = TablesRef { tables: &tables, compression: &c, col: 0, preimage: false, ref_counted: true };
	let tier: u8 = kani::any();
	kani::assume(tier < 3);
	let offset: u64 = kani::any();
	kani::assume(offset < (1u64 << 40));
	unsafe {
		QV_MODE = kani::any::<u8>() % 3;
		QV_RC = kani::any();
		DZ_N = 0;
	}
	let log = crate::index::verif_index::GhostLog;
	let r = ok(Column::get_value(TableKeyQuery::Check(&TableKey::NoHash), Address::new(offset, tier), tref, &log));
	let mode = unsafe { QV_MODE };
	assert!(unsafe { QV_INDEX } == offset && unsafe { QV_TABLE } == tier, "U39.get_value.reads_the_slot_the_address_names");
	match r {
		None => assert!(false, "U39.get_value.no_error"),
		Some(None) => assert!(mode == 0, "U39.get_value.absent_iff_the_table_has_no_value_there"),
		Some(Some((t, rc, v))) => {
			assert!(mode != 0 && t == tier && rc == unsafe { QV_RC }, "U39.get_value.tier_and_counter_passed_through");
			if mode == 1 {
				assert!(v.len() == 2 && v[0] == 0x11 && unsafe { DZ_N } == 0, "U39.get_value.plain_entry_returned_as_stored");
			} else {
				assert!(v.len() == 3 && v[0] == 0xd1 && unsafe { DZ_N } == 1, "U39.get_value.compressed_entry_is_decompressed");
			}
			std::mem::forget(v);
		},
	}
	std::mem::forget(tables);
	kani::cover!(mode == 2, "reached");
});

// ================================================================== U40: the per-operation dispatch of a hash column: existing key vs new key vs absent key
pub(crate) static mut WP_PRESENT: bool = false;
pub(crate) static mut WP_EXIST_N: usize = 0;
pub(crate) static mut WP_EXIST_OK: bool = true;
pub(crate) static mut WP_NEW_N: usize = 0;
pub(crate) static mut WP_NEW_OK: bool = true;
pub(crate) static mut WP_KEY0: u8 = 0;
pub(crate) static mut WP_OUT: u8 = 0;
fn wp_outcome() -> PlanOutcome {
	match unsafe { WP_OUT } % 3 {
		0 => PlanOutcome::Written,
		1 => PlanOutcome::NeedReindex,
		_ => PlanOutcome::Skipped,
	}
}
// HashColumn::search_all_indexes by contract (U15c): where the key is indexed, if anywhere
pub(crate) fn stub_search_all_indexes<'a>(key: &Key, tables: &'a Tables, _reindex: &'a Reindex, _log: &LogWriter) -> Result<Option<(&'a IndexTable, usize, Address)>> {
	unsafe {
		WP_EXIST_OK = WP_EXIST_OK && key[0] == WP_KEY0;
		if WP_PRESENT {
			Ok(Some((&tables.index, 37, Address::from_u64(0x4242))))
		} else {
			Ok(None)
		}
	}
}
// HashColumn::write_plan_existing by contract (U15): the operation applied to the entry found
pub(crate) fn stub_write_plan_existing(_c: &HashColumn, tables: &Tables, change: &Operation<Key, RcValue>, _log: &mut LogWriter, index: &IndexTable, sub_index: usize, existing_address: Address) -> Result<(PlanOutcome, Option<Address>)> {
	unsafe {
		WP_EXIST_N += 1;
		WP_EXIST_OK = WP_EXIST_OK && change.key()[0] == WP_KEY0 && sub_index == 37 && existing_address.as_u64() == 0x4242 && index.id == tables.index.id;
	}
	Ok((wp_outcome(), None))
}
// HashColumn::write_plan_new by contract (U15): value stored and indexed in the current index
pub(crate) fn stub_write_plan_new<'a, 'b>(
	_c: &HashColumn,
	tables: RwLockUpgradableReadGuard<'a, Tables>,
	reindex: RwLockUpgradableReadGuard<'b, Reindex>,
	key: &Key,
	value: &[u8],
	_log: &mut LogWriter,
) -> Result<(PlanOutcome, RwLockUpgradableReadGuard<'a, Tables>, RwLockUpgradableReadGuard<'b, Reindex>)> {
	unsafe {
		WP_NEW_N += 1;
		WP_NEW_OK = WP_NEW_OK && key[0] == WP_KEY0 && value.len() == 2 && value[0] == 0x77;
	}
	Ok((wp_outcome(), tables, reindex))
}
growth_harness!(#[kani::unwind(6)]
	#[kani::stub(super::HashColumn::search_all_indexes, stub_search_all_indexes)]
	#[kani::stub(super::HashColumn::write_plan_existing, stub_write_plan_existing)]
	#[kani::stub(super::HashColumn::write_plan_new, stub_write_plan_new)]
	u40_write_plan_dispatch, {
	let col = std::mem::ManuallyDrop::new(mk_growing_column(0));
	let key: Key = kani::any();
	let kind: u8 = kani::any();
	unsafe {
		WP_PRESENT = kani::any();
		WP_EXIST_N = 0;
		WP_EXIST_OK = true;
		WP_NEW_N = 0;
		WP_NEW_OK = true;
		WP_KEY0 = key[0];
		WP_OUT = kani::any();
	}
	let change: Operation<Key, RcValue> = match kind % 4 {
		0 => Operation::Set(key, RcValue::from(vec![0x77u8, 0x78])),
		1 => Operation::Reference(key),
		2 => Operation::Dereference(key),
		_ => Operation::ReferenceTree(key),
	};
	let overlays: &'static RwLock<crate::log::LogOverlays> = Box::leak(Box::new(RwLock::new(crate::log::LogOverlays::with_columns(0))));
	let w: &'static mut crate::log::LogWriter<'static> = Box::leak(Box::new(crate::log::LogWriter::new(overlays, 7)));
	let r = ok(col.write_plan(&change, w));
	let present = unsafe { WP_PRESENT };
	let (en, nn) = unsafe { (WP_EXIST_N, WP_NEW_N) };
	assert!(unsafe { WP_EXIST_OK } && unsafe { WP_NEW_OK }, "U40.write_plan.callees_get_the_key_value_and_entry_of_this_operation");
	if present {
		// an indexed key: the operation is applied to the entry found, never inserted a second time
		assert!(en == 1 && nn == 0, "U40.write_plan.existing_key_is_updated_where_it_was_found");
		assert!(r.is_some(), "U40.write_plan.no_error");
	} else {
		match kind % 4 {
			0 => assert!(en == 0 && nn == 1 && r.is_some(), "U40.write_plan.new_key_is_stored_and_indexed"),
			1 | 2 => {
				// references / dereferences of absent keys are ignored: nothing is written
				assert!(en == 0 && nn == 0, "U40.write_plan.reference_or_dereference_of_an_absent_key_writes_nothing");
				assert!(matches!(r, Some(PlanOutcome::Skipped)), "U40.write_plan.reference_or_dereference_of_an_absent_key_is_skipped");
			},
			_ => assert!(r.is_none() && en == 0 && nn == 0, "U40.write_plan.tree_operation_on_a_key_value_column_is_rejected"),
		}
	}
	std::mem::forget(change);
	kani::cover!(!present && kind % 4 == 1, "reached");
});

/*@@GENERATED:column@@*/

// ================================================================== U48: HashColumn::flush covers every table a log record can have written
// IndexTable / ValueTable / RefCountTable::flush (msync) replaced by recorders. While an index growth is in progress the older
// index tables in the reindex queue still receive writes when records are applied (enact_plan routes records by table id), so
// they must be flushed before the logs describing those writes are reclaimed.
pub(crate) static mut FLUSHED_BITS: [bool; 64] = [false; 64];
pub(crate) static mut FLUSH_IX_N: usize = 0;
pub(crate) fn stub_index_flush(t: &IndexTable) -> Result<()> {
	unsafe {
		FLUSH_IX_N += 1;
		FLUSHED_BITS[(t.id.index_bits() & 63) as usize] = true;
	}
	Ok(())
}
growth_harness!(#[kani::unwind(8)] #[kani::stub(crate::index::IndexTable::flush, stub_index_flush)] u48_flush_covers_queued_index_tables, {
	let col = std::mem::ManuallyDrop::new(mk_growing_column(0));
	unsafe {
		FLUSH_IX_N = 0;
		FLUSHED_BITS = [false; 64];
	}
	assert!(ok(col.flush()).is_some(), "U48.flush.no_error");
	assert!(unsafe { FLUSHED_BITS[18] }, "U48.flush.current_index_is_flushed");
	assert!(unsafe { FLUSHED_BITS[16] && FLUSHED_BITS[17] }, "U48.flush.index_tables_still_queued_for_migration_are_flushed");
	kani::cover!(unsafe { FLUSH_IX_N } >= 1, "reached");
});

// ================================================================== U49: hash_key on uniform-key columns
// A uniform column admits every key of 32 bytes or more: hashing never panics, keeps bytes 16..32 of the key (the index and
// the stored key tail are derived from them) and is a function of the key bytes.
macro_rules! hash_key_harness {
	($name:ident, $len:expr) => {
		#[kani::proof]
		#[kani::unwind(40)]
		fn $name() {
			let key: [u8; $len] = kani::any();
			let salt: Salt = kani::any();
			let version: u32 = kani::any();
			kani::assume(version >= 4 && version <= crate::options::CURRENT_VERSION);
			// (a build with the test / instrumentation features short-cuts a zero salt; Kani builds without them)
			let k = hash_key(&key, &salt, true, version);
			if version >= 8 {
				let i: usize = kani::any();
				kani::assume(i >= 16 && i < 32);
				assert!(k[i] == key[i], "U49.hash_key.uniform_keeps_key_bytes_16_to_32");
			}
			let k2 = hash_key(&key, &salt, true, version);
			assert!(k == k2, "U49.hash_key.is_a_function_of_key_and_salt");
			kani::cover!(version >= 8, "reached");
		}
	};
}
hash_key_harness!(u49_hash_key_uniform_len32, 32);
hash_key_harness!(u49_hash_key_uniform_len33, 33);
hash_key_harness!(u49_hash_key_uniform_len40, 40);

// the current key format hashes the WHOLE key (SipHash 1-3 keyed by the salt): two keys that agree on their first 32 bytes
// and differ behind them must not be forced onto the same internal key. SipHasher13::write is replaced by a recorder that
// checks it is handed the key bytes, all of them, in order.
pub(crate) static mut HK_FED: usize = 0;
pub(crate) static mut HK_FED_OK: bool = true;
pub(crate) static mut HK_KEY: [u8; 40] = [0; 40];
pub(crate) fn stub_sip_write(_h: &mut siphasher::sip128::SipHasher13, msg: &[u8]) {
	unsafe {
		let mut i = 0;
		while i < msg.len() {
			if HK_FED + i >= 40 || msg[i] != HK_KEY[HK_FED + i] {
				HK_FED_OK = false;
			}
			i += 1;
		}
		HK_FED += msg.len();
	}
}
macro_rules! hash_key_whole_harness {
	($name:ident, $len:expr) => {
		#[kani::proof]
		#[kani::unwind(42)]
		#[kani::stub(<siphasher::sip128::SipHasher13 as std::hash::Hasher>::write, stub_sip_write)]
		fn $name() {
			let key: [u8; $len] = kani::any();
			let salt: Salt = kani::any();
			unsafe {
				HK_FED = 0;
				HK_FED_OK = true;
				HK_KEY = [0; 40];
				let mut i = 0;
				while i < $len {
					HK_KEY[i] = key[i];
					i += 1;
				}
			}
			let _k = hash_key(&key, &salt, true, crate::options::CURRENT_VERSION);
			assert!(unsafe { HK_FED } == $len && unsafe { HK_FED_OK }, "U49.hash_key.current_format_hashes_the_whole_key");
			kani::cover!(true, "reached");
		}
	};
}
hash_key_whole_harness!(u49_hash_key_hashes_whole_key_len33, 33);
hash_key_whole_harness!(u49_hash_key_hashes_whole_key_len40, 40);

// ================================================================== U53: validation of an index record never grows the index beyond what the log overlay can hold
// HashColumn::validate_plan re-launches an index growth when a record names a larger index than the current one (the growth had
// been triggered in the previous session). The table id is one byte taken from the log before the record's checksum is
// known: an index size the per-column log overlay has no slot for (>= 64 - MIN_INDEX_BITS) must be rejected, not grown towards.
pub(crate) fn stub_trigger_reindex_forbidden<'a, 'b>(
	tables: RwLockUpgradableReadGuard<'a, Tables>,
	reindex: RwLockUpgradableReadGuard<'b, Reindex>,
	_path: &std::path::Path,
) -> (RwLockUpgradableReadGuard<'a, Tables>, RwLockUpgradableReadGuard<'b, Reindex>) {
	assert!(false, "U53.validate.no_index_growth_towards_a_size_the_log_overlay_cannot_hold");
	kani::assume(false);
	(tables, reindex)
}
growth_harness!(#[kani::unwind(4)]
	#[kani::stub(super::HashColumn::trigger_reindex, stub_trigger_reindex_forbidden)]
	#[kani::stub(crate::log::LogReader::read, crate::log::verif_log::stub_read)]
	#[kani::stub(crc32fast::Hasher::new, crate::verif_stubs::crc_hasher_new)]
	u53_validate_rejects_unrepresentable_index_size, {
	let col = std::mem::ManuallyDrop::new(mk_hash_column(16, false));
	let bits: u8 = kani::any();
	kani::assume(bits >= 64 - MIN_INDEX_BITS);
	let index: u64 = kani::any();
	let mut reader = std::mem::ManuallyDrop::new(crate::log::verif_log::mk_reader());
	crate::log::verif_log::reader_reset([0u8; 8], usize::MAX);
	let action = LogAction::InsertIndex(crate::log::InsertIndexAction { table: IndexTableId::new(0, bits), index });
	let r = ok(col.validate_plan(action, &mut *reader));
	assert!(r.is_none(), "U53.validate.index_size_without_a_log_overlay_slot_is_rejected");
	assert!(col.tables.read().index.id.index_bits() == 16 && col.reindex.read().queue.is_empty(), "U53.validate.rejected_record_leaves_the_index_as_it_was");
	kani::cover!(r.is_none(), "reached");
});

// ================================================================== U54: an existing key whose value moves stays indexed when the index chunk is full
// HashColumn::write_plan (real write_plan_existing inside) with the index operations, the value write and the growth trigger by
// contract (the recorders of U15). When an overwrite moves the value to another slot (other size tier), the old slot is already
// released and the new one written by the time the index is updated: if the current index answers "chunk full", the index must
// grow until an insert of the new address is accepted -- otherwise a committed key becomes unreadable and its value an orphan.
pub(crate) static mut SA_IN_CURRENT: bool = true;
pub(crate) fn stub_search_all_found<'a>(_key: &Key, tables: &'a Tables, reindex: &'a Reindex, _log: &LogWriter) -> Result<Option<(&'a IndexTable, usize, Address)>> {
	if unsafe { SA_IN_CURRENT } {
		Ok(Some((&tables.index, 37, Address::from_u64(0x4242))))
	} else {
		match reindex.queue.front() {
			Some(ReindexEntry::Index(t)) => Ok(Some((t, 37, Address::from_u64(0x4242)))),
			_ => Ok(None),
		}
	}
}
fn u54_body(need: usize) {
	let col: &'static HashColumn = Box::leak(Box::new(mk_growing_column(0)));
	plan_reset(need);
	unsafe {
		EXIST_OUT = 2; // the value moved to NEW_ADDR
		SA_IN_CURRENT = kani::any();
	}
	let key: Key = kani::any();
	let overlays: &'static RwLock<crate::log::LogOverlays> = Box::leak(Box::new(RwLock::new(crate::log::LogOverlays::with_columns(0))));
	let w: &'static mut crate::log::LogWriter<'static> = Box::leak(Box::new(crate::log::LogWriter::new(overlays, 7)));
	let change: Operation<Key, RcValue> = Operation::Dereference(key);
	let r = ok(col.write_plan(&change, &mut *w));
	assert!(r.is_some(), "U54.write_plan.no_error");
	let n = unsafe { IX_N };
	// some insert of the key at the new address was accepted by an index
	let mut accepted = false;
	let mut i = 0;
	while i < 6 {
		if i < n && unsafe { IX_KIND[i] == 1 && IX_RET_WRITTEN[i] && IX_ADDR[i] == NEW_ADDR && IX_KEY0[i] == key[0] } {
			accepted = true;
		}
		i += 1;
	}
	assert!(accepted, "U54.write_plan.moved_value_is_indexed_even_if_the_index_chunk_was_full");
	if need > 0 {
		assert!(unsafe { TRIG_N } >= 1, "U54.write_plan.a_full_index_grows");
	}
	kani::cover!(n >= 1, "reached");
}
macro_rules! moved_harness {
	($name:ident, $need:expr) => {
		plan_harness!(#[kani::unwind(8)] #[kani::stub(super::HashColumn::search_all_indexes, stub_search_all_found)] $name, u54_body($need));
	};
}
moved_harness!(u54_moved_value_indexed_need0, 0);
moved_harness!(u54_moved_value_indexed_need1, 1);
moved_harness!(u54_moved_value_indexed_need2, 2);

// ================================================================== U16b: the index walk that feeds migration reaches keys in every index table
// While an index growth is pending, keys that were not yet moved live only in the older index tables of the reindex queue
// (HashColumn::get and the write path search them). A walk over "every key of the column" has to reach them too.
pub(crate) static mut WALKED_BITS: [bool; 64] = [false; 64];
pub(crate) fn stub_entries_empty<L: LogQuery>(t: &IndexTable, _chunk_index: u64, _log: &L) -> Result<[crate::index::Entry; 64]> {
	unsafe {
		WALKED_BITS[(t.id.index_bits() & 63) as usize] = true;
		Ok(std::mem::transmute::<[u64; 64], [crate::index::Entry; 64]>([0u64; 64]))
	}
}
growth_harness!(#[kani::unwind(66)] #[kani::solver(kissat)] #[kani::stub(crate::index::IndexTable::entries, stub_entries_empty)] u16b_index_walk_reaches_queued_index_tables, {
	let col = std::mem::ManuallyDrop::new(mk_growing_column(0));
	unsafe { WALKED_BITS = [false; 64] };
	let log: &'static crate::log::Log = Box::leak(Box::new(crate::log::verif_log::mk_log()));
	let last_chunk = (1u64 << 18) - 1;
	let r = ok(col.iter_index_internal(log, |_st| Ok(true), last_chunk));
	assert!(r.is_some(), "U16.index_walk.no_error");
	assert!(unsafe { WALKED_BITS[18] }, "U16.index_walk.current_index_is_walked");
	assert!(unsafe { WALKED_BITS[16] && WALKED_BITS[17] }, "U16.index_walk.index_tables_queued_for_migration_are_walked");
	kani::cover!(unsafe { WALKED_BITS[18] }, "reached");
});
