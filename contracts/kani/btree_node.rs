// Appended to /repo/src/btree/node.rs of the scratch copy (child module: sees the node's private fields).
// Unit U12: btree node codec and node-local operations, incl. Node::rebalance with its I/O callees replaced by contracts.
#![allow(dead_code, unused_variables, unused_imports, static_mut_refs, unused_mut)]
use super::*;

fn ok<T>(r: Result<T>) -> Option<T> {
	match r {
		Ok(v) => Some(v),
		Err(e) => {
			std::mem::forget(e);
			None
		},
	}
}

// ---- separators / children are identified by tags carried in their address fields; keys are empty (no operation
// under test here looks at keys)
fn tag_sep(t: u64) -> Separator {
	Separator { modified: false, separator: Some(SeparatorInner { key: Vec::new(), value: Address::from_u64(t) }) }
}
fn sep_tag(n: &Node, i: usize) -> u64 {
	match n.separators[i].separator.as_ref() {
		Some(s) => s.value.as_u64(),
		None => 0,
	}
}
fn child_tag(n: &Node, i: usize) -> u64 {
	match n.children[i].entry_index {
		Some(a) => a.as_u64(),
		None => 0,
	}
}
// packed node with `n` separators tagged base+1.., and (inner nodes) n+1 children tagged base+101..
fn mk_node(n: usize, inner: bool, base: u64) -> Node {
	let mut node = Node { separators: Default::default(), children: Default::default(), changed: false };
	let mut i = 0;
	while i < n {
		node.separators[i] = tag_sep(base + 1 + i as u64);
		i += 1;
	}
	if inner {
		let mut j = 0;
		while j <= n {
			node.children[j] = Child { moved: false, entry_index: Some(Address::from_u64(base + 101 + j as u64)) };
			j += 1;
		}
	}
	node
}

// ================================================================== node-local array operations
fn u12_remove_from(n: usize) {
	let inner: bool = kani::any();
	let wl: bool = kani::any();
	let from: usize = kani::any();
	kani::assume(from < n);
	let mut node = mk_node(n, inner, 0);
	// precondition taken from the call sites (on_existing, rebalance x2): the caller has already taken the separator at
	// `from` (and the child that goes with it) out of the node; remove_from closes the gap
	let _s = node.remove_separator(from);
	if inner {
		let _c = node.remove_child(if wl { from } else { from + 1 });
	}
	node.remove_from(from, inner, wl);
	assert!(node.changed, "U12.remove_from.marks_changed");
	assert!(node.number_separator() == n - 1, "U12.remove_from.one_separator_less_and_packed");
	let i: usize = kani::any();
	kani::assume(i < ORDER);
	let exp = if i < from { 1 + i as u64 } else if i + 1 < n { 2 + i as u64 } else { 0 };
	assert!(sep_tag(&node, i) == exp, "U12.remove_from.order_of_remaining_separators_preserved");
	if inner {
		let c = if wl { from } else { from + 1 };
		let j: usize = kani::any();
		kani::assume(j < ORDER_CHILD);
		let expc = if j < c { 101 + j as u64 } else if j < n { 102 + j as u64 } else { 0 };
		assert!(child_tag(&node, j) == expc, "U12.remove_from.order_of_remaining_children_preserved");
	}
	std::mem::forget(node);
}
fn u12_shift_from(n: usize) {
	// opens a gap for an insertion; the node has room (n < ORDER)
	let inner: bool = kani::any();
	let wl: bool = kani::any();
	let from: usize = kani::any();
	kani::assume(from <= n);
	let mut node = mk_node(n, inner, 0);
	node.shift_from(from, inner, wl);
	assert!(node.changed, "U12.shift_from.marks_changed");
	let i: usize = kani::any();
	kani::assume(i < ORDER);
	let exp = if i < from { 1 + i as u64 } else if i == from { 0 } else if i <= n { i as u64 } else { 0 };
	assert!(sep_tag(&node, i) == exp, "U12.shift_from.separators_shifted_right_gap_at_from");
	if inner {
		let c = if wl { from } else { from + 1 };
		let j: usize = kani::any();
		kani::assume(j < ORDER_CHILD);
		let expc = if j < c { 101 + j as u64 } else if j == c { 0 } else if j <= n + 1 { 100 + j as u64 } else { 0 };
		assert!(child_tag(&node, j) == expc, "U12.shift_from.children_shifted_right_gap_at_child");
	}
	std::mem::forget(node);
}
fn u12_number_and_last(n: usize) {
	let node = mk_node(n, kani::any(), 0);
	assert!(node.number_separator() == n, "U12.number_separator.counts_packed_prefix");
	assert!(node.last_separator_index() == if n == 0 { None } else { Some(n - 1) }, "U12.last_separator_index");
	let mut m = mk_node(n, false, 0);
	assert!(m.need_rebalance() == (n < ORDER / 2), "U12.need_rebalance.below_half_full");
	std::mem::forget(node);
	std::mem::forget(m);
}

// ================================================================== rebalance, callees by contract
// fetch_child(i) returns the node stored under child i (CHILD_STORE), write_child(i, node) stores it back
// (contract of BTreeTable::write_node_plan / get_encoded_entry + from_encoded: a node reads back as written)
pub(crate) static mut STORE: [Option<Node>; 3] = [None, None, None];
pub(crate) static mut STORE_AT: [usize; 3] = [0; 3];
pub(crate) static mut WRITTEN: [Option<Node>; 3] = [None, None, None];
pub(crate) static mut WRITTEN_AT: [usize; 3] = [usize::MAX; 3];
pub(crate) static mut WRITTEN_N: usize = 0;
pub(crate) static mut REMOVED_NODE: u64 = 0;
pub(crate) fn stub_fetch_child<L: LogQuery>(this: &Node, i: usize, _values: TablesRef, _log: &L) -> Result<Option<Node>> {
	unsafe {
		if this.children[i].entry_index.is_none() {
			return Ok(None)
		}
		let mut k = 0;
		while k < 3 {
			if STORE[k].is_some() && STORE_AT[k] == i {
				return Ok(STORE[k].clone())
			}
			k += 1;
		}
		Ok(None)
	}
}
pub(crate) fn stub_write_child(this: &mut Node, i: usize, child: Node, _btree: TablesRef, _log: &mut LogWriter) -> Result<()> {
	unsafe {
		assert!(WRITTEN_N < 3, "verif: too many child writes");
		WRITTEN[WRITTEN_N] = Some(child);
		WRITTEN_AT[WRITTEN_N] = i;
		WRITTEN_N += 1;
	}
	Ok(())
}
pub(crate) fn stub_remove_node(_tables: TablesRef, _writer: &mut LogWriter, node_index: Address) -> Result<()> {
	unsafe {
		REMOVED_NODE = node_index.as_u64();
	}
	Ok(())
}
macro_rules! node_harness {
	($(#[$m:meta])* $name:ident, $body:expr) => {
		#[kani::proof]
		$(#[$m])*
		#[kani::stub(super::Node::fetch_child, stub_fetch_child)]
		#[kani::stub(super::Node::write_child, stub_write_child)]
		#[kani::stub(super::BTreeTable::write_plan_remove_node, stub_remove_node)]
		#[kani::stub(std::hash::RandomState::new, crate::verif_stubs::random_state_new)]
		#[kani::stub(parking_lot::RawRwLock::lock_shared_slow, crate::verif_stubs::lock_shared_slow)]
		#[kani::stub(parking_lot::RawRwLock::unlock_shared_slow, crate::verif_stubs::unlock_shared_slow)]
		#[kani::stub(parking_lot::RawRwLock::lock_exclusive_slow, crate::verif_stubs::lock_exclusive_slow)]
		#[kani::stub(parking_lot::RawRwLock::unlock_exclusive_slow, crate::verif_stubs::unlock_exclusive_slow)]
		#[kani::stub(std::fmt::format, crate::verif_stubs::fmt_format)]
		fn $name() {
			$body
		}
	};
}
fn written_at(i: usize) -> Option<&'static Node> {
	unsafe {
		let mut k = WRITTEN_N;
		while k > 0 {
			k -= 1;
			if WRITTEN_AT[k] == i {
				return WRITTEN[k].as_ref()
			}
		}
		None
	}
}
// in-order content of (left subtree node, parent separator, right subtree node) is what a rebalance must preserve:
// parent P with `np` separators; the deficient child at `at`; sibling sizes nl / nr; inner = children are inner nodes
fn u12_rebalance(np: usize, at: usize, nl: usize, nr: usize, inner: bool) {
	// children of interest: index `at-1`/`at` (left/right of separator at-1) or `at`/`at+1`
	let tables: [crate::table::ValueTable; 0] = [];
	let no = crate::compress::Compress::new(crate::compress::CompressionType::NoCompression, u32::MAX);
	let tr = TablesRef { tables: &tables, compression: &no, col: 0, preimage: false, ref_counted: false };
	let overlays: &'static crate::parking_lot::RwLock<crate::log::LogOverlays> = Box::leak(Box::new(crate::parking_lot::RwLock::new(crate::log::LogOverlays::with_columns(0))));
	let w: &'static mut LogWriter<'static> = Box::leak(Box::new(LogWriter::new(overlays, 7)));
	let mut parent = mk_node(np, true, 1000);
	// left sibling / deficient / right sibling, as stored
	let li = if at > 0 { at - 1 } else { usize::MAX };
	unsafe {
		WRITTEN_N = 0;
		REMOVED_NODE = 0;
		STORE = [None, None, None];
		if at > 0 {
			STORE[0] = Some(mk_node(nl, inner, 2000));
			STORE_AT[0] = at - 1;
		}
		STORE[1] = Some(mk_node(ORDER / 2 - 1, inner, 3000)); // the deficient child: one below half
		STORE_AT[1] = at;
		if at + 1 <= np {
			STORE[2] = Some(mk_node(nr, inner, 4000));
			STORE_AT[2] = at + 1;
		}
	}
	let depth: u32 = if inner { 3 } else { 2 };
	let r = ok(parent.rebalance(depth, at, tr, &mut *w));
	assert!(r.is_some(), "U12.rebalance.no_error");
	let d = ORDER / 2 - 1; // separators in the deficient child
	let borrow_left = at > 0 && nl > ORDER / 2;
	let borrow_right = !borrow_left && at + 1 <= np && nr > ORDER / 2;
	let q: usize = kani::any();
	kani::assume(q < ORDER);
	let qc: usize = kani::any();
	kani::assume(qc < ORDER_CHILD);
	if borrow_left {
		// rotate right: last of left goes up, parent separator comes down in front of the deficient child
		let l = written_at(at - 1).expect("left written");
		let c = written_at(at).expect("deficient written");
		assert!(l.number_separator() == nl - 1 && c.number_separator() == d + 1, "U12.rebalance.borrow_left.sizes");
		assert!(sep_tag(&parent, at - 1) == 2000 + nl as u64, "U12.rebalance.borrow_left.last_of_left_moves_up");
		assert!(sep_tag(c, 0) == 1000 + at as u64, "U12.rebalance.borrow_left.parent_separator_moves_down");
		if q >= 1 && q <= d {
			assert!(sep_tag(c, q) == 3000 + q as u64, "U12.rebalance.borrow_left.deficient_content_shifted_in_order");
		}
		if q < nl - 1 {
			assert!(sep_tag(l, q) == 2001 + q as u64, "U12.rebalance.borrow_left.left_keeps_prefix");
		}
		if inner {
			assert!(child_tag(c, 0) == 2101 + nl as u64, "U12.rebalance.borrow_left.last_child_of_left_moves_over");
			if qc >= 1 && qc <= d + 1 {
				assert!(child_tag(c, qc) == 3100 + qc as u64, "U12.rebalance.borrow_left.deficient_children_shifted_in_order");
			}
			if qc < nl {
				assert!(child_tag(l, qc) == 2101 + qc as u64, "U12.rebalance.borrow_left.left_keeps_children_prefix");
			}
		}
		assert!(parent.number_separator() == np, "U12.rebalance.borrow_left.parent_size_unchanged");
	} else if borrow_right {
		// rotate left: first of right goes up, parent separator comes down behind the deficient child
		let c = written_at(at).expect("deficient written");
		let rr = written_at(at + 1).expect("right written");
		assert!(c.number_separator() == d + 1 && rr.number_separator() == nr - 1, "U12.rebalance.borrow_right.sizes");
		assert!(sep_tag(&parent, at) == 4001, "U12.rebalance.borrow_right.first_of_right_moves_up");
		assert!(sep_tag(c, d) == 1001 + at as u64, "U12.rebalance.borrow_right.parent_separator_moves_down");
		if q < d {
			assert!(sep_tag(c, q) == 3001 + q as u64, "U12.rebalance.borrow_right.deficient_keeps_content");
		}
		if q < nr - 1 {
			assert!(sep_tag(rr, q) == 4002 + q as u64, "U12.rebalance.borrow_right.right_keeps_rest_in_order");
		}
		if inner {
			assert!(child_tag(c, d + 1) == 4101, "U12.rebalance.borrow_right.first_child_of_right_moves_over");
			if qc < nr {
				assert!(child_tag(rr, qc) == 4102 + qc as u64, "U12.rebalance.borrow_right.right_keeps_remaining_children_in_order");
			}
			if qc <= d {
				assert!(child_tag(c, qc) == 3101 + qc as u64, "U12.rebalance.borrow_right.deficient_keeps_children");
			}
		}
		assert!(parent.number_separator() == np, "U12.rebalance.borrow_right.parent_size_unchanged");
	} else {
		// merge with a sibling: (left ++ [parent separator] ++ right) in one node, parent loses that separator and the right child
		let (ml, sl, lb, sr, rb, sepi) = if at + 1 == np + 1 {
			(at - 1, nl, 2000u64, d, 3000u64, at - 1)
		} else {
			(at, d, 3000u64, nr, 4000u64, at)
		};
		let m = written_at(ml).expect("merged node written");
		assert!(m.number_separator() == sl + 1 + sr, "U12.rebalance.merge.size");
		if q < sl {
			assert!(sep_tag(m, q) == lb + 1 + q as u64, "U12.rebalance.merge.left_content_first");
		} else if q == sl {
			assert!(sep_tag(m, q) == 1001 + sepi as u64, "U12.rebalance.merge.parent_separator_in_the_middle");
		} else if q < sl + 1 + sr {
			assert!(sep_tag(m, q) == rb + (q - sl) as u64, "U12.rebalance.merge.right_content_last");
		}
		if inner {
			if qc <= sl {
				assert!(child_tag(m, qc) == lb + 101 + qc as u64, "U12.rebalance.merge.left_children_first");
			} else if qc <= sl + 1 + sr {
				assert!(child_tag(m, qc) == rb + 101 + (qc - sl - 1) as u64, "U12.rebalance.merge.right_children_last");
			}
		}
		assert!(parent.number_separator() == np - 1, "U12.rebalance.merge.parent_loses_one_separator");
		if q < sepi {
			assert!(sep_tag(&parent, q) == 1001 + q as u64, "U12.rebalance.merge.parent_prefix_kept");
		} else if q + 1 < np {
			assert!(sep_tag(&parent, q) == 1002 + q as u64, "U12.rebalance.merge.parent_suffix_shifted");
		}
		assert!(unsafe { REMOVED_NODE } == 1101 + (sepi + 1) as u64, "U12.rebalance.merge.right_node_released");
		if qc <= sepi {
			assert!(child_tag(&parent, qc) == 1101 + qc as u64, "U12.rebalance.merge.parent_children_prefix_kept");
		} else if qc < np {
			assert!(child_tag(&parent, qc) == 1102 + qc as u64, "U12.rebalance.merge.parent_children_suffix_shifted");
		}
	}
	std::mem::forget(parent);
}

// ================================================================== position(): the separator search every lookup / insert / seek relies on
// keys are arbitrary (two bytes, also of different lengths) and NOT assumed sorted: the contract of the scan holds for any node
fn key_of(n: &Node, i: usize) -> &[u8] {
	match n.separators[i].separator.as_ref() {
		Some(s) => &s.key[..],
		None => &[],
	}
}
fn u12_position(n: usize) {
	let mut node = Node { separators: Default::default(), children: Default::default(), changed: false };
	let mut i = 0;
	while i < n {
		let short: bool = kani::any();
		let k: Vec<u8> = if short { vec![kani::any()] } else { vec![kani::any(), kani::any()] };
		node.separators[i] = Separator { modified: false, separator: Some(SeparatorInner { key: k, value: Address::from_u64(1 + i as u64) }) };
		i += 1;
	}
	let kshort: bool = kani::any();
	let kb: [u8; 2] = kani::any();
	let key: &[u8] = if kshort { &kb[..1] } else { &kb[..] };
	match ok(node.position(key)) {
		None => assert!(false, "U12.position.no_error"),
		Some((found, at)) => {
			assert!(at <= n, "U12.position.index_within_the_separators");
			let j: usize = kani::any();
			if j < at {
				// every separator before the returned position is strictly smaller than the key
				assert!(key_of(&node, j) < key, "U12.position.everything_before_is_smaller");
			}
			if found {
				assert!(at < n && key_of(&node, at) == key, "U12.position.match_means_equal_key_at_that_position");
			} else if at < n {
				assert!(key_of(&node, at) > key, "U12.position.no_match_stops_at_the_first_greater_separator");
			}
		},
	}
	std::mem::forget(node);
}


// ================================================================== U70: Node::insert_node (a separator and its right child come up from a split child)
// The in-order content of the subtree must be preserved: reading (left node, separator handed up, right node) in order gives the
// old separators with the new one at position `at`, and the old children with the new child right behind position `at`; both
// nodes are packed and hold at most ORDER separators.  Node::write_split_child (stores the right node) is replaced by a recorder.
pub(crate) static mut SPLIT_RIGHT: Option<Node> = None;
pub(crate) fn stub_write_split_child(right_ix: Option<Address>, right: Node, _btree: TablesRef, _log: &mut LogWriter) -> Result<Child> {
	unsafe {
		SPLIT_RIGHT = Some(right);
	}
	Ok(Child { moved: true, entry_index: Some(Address::from_u64(9999)) })
}
fn count_seps(n: &Node) -> usize {
	let mut k = 0;
	while k < ORDER && n.separators[k].separator.is_some() {
		k += 1;
	}
	k
}
fn packed(n: &Node, inner: bool) -> bool {
	// no separator behind the first empty slot; inner nodes: a child for every position 0..=count, none behind
	let c = count_seps(n);
	let mut k = c;
	let mut ok = true;
	while k < ORDER {
		if n.separators[k].separator.is_some() {
			ok = false;
		}
		k += 1;
	}
	if inner {
		let mut j = 0;
		while j <= ORDER {
			let has = n.children[j].entry_index.is_some();
			if (j <= c) != has {
				ok = false;
			}
			j += 1;
		}
	}
	ok
}
fn u70_insert_node(n: usize, at: usize) {
	let tables: [crate::table::ValueTable; 0] = [];
	let no = crate::compress::Compress::new(crate::compress::CompressionType::NoCompression, u32::MAX);
	let tr = TablesRef { tables: &tables, compression: &no, col: 0, preimage: false, ref_counted: false };
	let overlays: &'static crate::parking_lot::RwLock<crate::log::LogOverlays> = Box::leak(Box::new(crate::parking_lot::RwLock::new(crate::log::LogOverlays::with_columns(0))));
	let w: &'static mut LogWriter<'static> = Box::leak(Box::new(LogWriter::new(overlays, 7)));
	let mut node = mk_node(n, true, 1000);
	unsafe {
		SPLIT_RIGHT = None;
	}
	let sep = tag_sep(5000);
	let child = Child { moved: true, entry_index: Some(Address::from_u64(6000)) };
	let r = ok(node.insert_node(1, at, sep, child, tr, w));
	assert!(r.is_some(), "U70.insert_node.no_error");
	let up = r.unwrap();
	// expected in-order sequences
	let mut want_s = [0u64; 10];
	let mut want_c = [0u64; 11];
	let mut k = 0;
	while k < n + 1 {
		want_s[k] = if k < at { 1001 + k as u64 } else if k == at { 5000 } else { 1000 + k as u64 };
		k += 1;
	}
	let mut j = 0;
	while j < n + 2 {
		want_c[j] = if j <= at { 1101 + j as u64 } else if j == at + 1 { 6000 } else { 1100 + j as u64 };
		j += 1;
	}
	// actual in-order sequences
	let mut got_s = [0u64; 10];
	let mut got_c = [0u64; 11];
	let nl = count_seps(&node);
	assert!(packed(&node, true), "U70.insert_node.left_node_is_packed");
	let mut gs = 0;
	let mut gc = 0;
	let mut i = 0;
	while i < nl {
		got_s[gs] = sep_tag(&node, i);
		gs += 1;
		i += 1;
	}
	let mut i = 0;
	while i <= nl {
		got_c[gc] = child_tag(&node, i);
		gc += 1;
		i += 1;
	}
	match &up {
		None => {
			assert!(n < ORDER, "U70.insert_node.a_full_node_is_split");
			assert!(unsafe { SPLIT_RIGHT.is_none() }, "U70.insert_node.no_node_is_written_without_a_split");
		},
		Some((s, c)) => {
			assert!(n == ORDER, "U70.insert_node.only_a_full_node_is_split");
			assert!(c.entry_index.map(|a| a.as_u64()) == Some(9999), "U70.insert_node.right_child_handed_up_is_the_node_written");
			let right = unsafe { SPLIT_RIGHT.as_ref() };
			assert!(right.is_some(), "U70.insert_node.right_node_is_written");
			let right = right.unwrap();
			assert!(packed(right, true), "U70.insert_node.right_node_is_packed");
			let nr = count_seps(right);
			assert!(nl >= 1 && nr >= 1 && nl + nr == ORDER, "U70.insert_node.both_halves_hold_separators_and_none_is_lost");
			got_s[gs] = match s.separator.as_ref() { Some(x) => x.value.as_u64(), None => 0 };
			gs += 1;
			let mut i = 0;
			while i < nr {
				got_s[gs] = sep_tag(right, i);
				gs += 1;
				i += 1;
			}
			let mut i = 0;
			while i <= nr {
				got_c[gc] = child_tag(right, i);
				gc += 1;
				i += 1;
			}
		},
	}
	assert!(gs == n + 1 && gc == n + 2, "U70.insert_node.one_separator_and_one_child_more");
	let mut k = 0;
	while k < 10 {
		assert!(got_s[k] == want_s[k], "U70.insert_node.separators_in_order_with_the_new_one_at_its_position");
		k += 1;
	}
	let mut j = 0;
	while j < 11 {
		assert!(got_c[j] == want_c[j], "U70.insert_node.children_in_order_with_the_new_child_right_of_the_new_separator");
		j += 1;
	}
	kani::cover!(true, "reached");
	std::mem::forget(up);
	std::mem::forget(node);
}

// ================================================================== U71: Node::insert at leaf level (depth 0) -- a key enters a leaf, a full leaf is split
// Leaf keys are one byte, 2, 4, .. 2n (so odd bytes are absent keys); every separator carries its key as tag in its value
// address.  Node::create_separator (writes the value entry) is replaced by its contract: a separator with the key handed in and
// a fresh address (5000 + key) -- or, for an existing key, told which address it overwrites.
pub(crate) static mut CREATED_EXISTING: Option<u64> = None;
pub(crate) static mut CREATED_N: usize = 0;
pub(crate) fn stub_create_separator(key: &[u8], _value: &[u8], _btree: TablesRef, _log: &mut LogWriter, existing: Option<Address>) -> Result<Separator> {
	unsafe {
		CREATED_N += 1;
		CREATED_EXISTING = existing.map(|a| a.as_u64());
	}
	let mut k = Vec::with_capacity(1);
	k.push(key[0]);
	Ok(Separator { modified: true, separator: Some(SeparatorInner { key: k, value: Address::from_u64(5000 + key[0] as u64) }) })
}
fn mk_leaf_keys(n: usize) -> Node {
	let mut node = Node { separators: Default::default(), children: Default::default(), changed: false };
	let mut i = 0;
	while i < n {
		let kb = (2 * (i + 1)) as u8;
		let mut k = Vec::with_capacity(1);
		k.push(kb);
		node.separators[i] = Separator { modified: false, separator: Some(SeparatorInner { key: k, value: Address::from_u64(kb as u64) }) };
		i += 1;
	}
	node
}
fn sep_key(n: &Node, i: usize) -> u8 {
	match n.separators[i].separator.as_ref() {
		Some(s) => if s.key.len() == 1 { s.key[0] } else { 0 },
		None => 0,
	}
}
fn u71_insert_leaf(n: usize) {
	let tables: [crate::table::ValueTable; 0] = [];
	let no = crate::compress::Compress::new(crate::compress::CompressionType::NoCompression, u32::MAX);
	let tr = TablesRef { tables: &tables, compression: &no, col: 0, preimage: false, ref_counted: false };
	let overlays: &'static crate::parking_lot::RwLock<crate::log::LogOverlays> = Box::leak(Box::new(crate::parking_lot::RwLock::new(crate::log::LogOverlays::with_columns(0))));
	let w: &'static mut LogWriter<'static> = Box::leak(Box::new(LogWriter::new(overlays, 7)));
	let mut node = mk_leaf_keys(n);
	let kb: u8 = kani::any();
	kani::assume(kb >= 1 && (kb as usize) <= 2 * n + 1);
	let key = [kb];
	let value = [9u8];
	unsafe {
		SPLIT_RIGHT = None;
		CREATED_N = 0;
		CREATED_EXISTING = None;
	}
	let ops: [Operation<RcKey, RcValue>; 0] = [];
	let mut changes: &[Operation<RcKey, RcValue>] = &ops;
	let r = ok(node.insert(0, &key, &value, &mut changes, tr, w));
	assert!(r.is_some(), "U71.insert.no_error");
	let (up, rebalance) = r.unwrap();
	assert!(unsafe { CREATED_N } == 1, "U71.insert.exactly_one_value_entry_is_written");
	let present = kb % 2 == 0;
	if present {
		// overwrite: same keys, the separator of the key now carries the new value; the old value's address was handed to the writer
		assert!(up.is_none() && unsafe { SPLIT_RIGHT.is_none() }, "U71.insert.overwriting_a_key_splits_nothing");
		assert!(unsafe { CREATED_EXISTING } == Some(kb as u64), "U71.insert.overwrite_is_told_the_address_of_the_old_value");
		assert!(count_seps(&node) == n && packed(&node, false), "U71.insert.overwrite_keeps_the_keys");
		let mut i = 0;
		while i < n {
			let k = (2 * (i + 1)) as u8;
			assert!(sep_key(&node, i) == k, "U71.insert.overwrite_keeps_the_keys");
			assert!(sep_tag(&node, i) == if k == kb { 5000 + kb as u64 } else { k as u64 }, "U71.insert.only_the_value_of_the_key_changes");
			i += 1;
		}
	} else {
		assert!(unsafe { CREATED_EXISTING }.is_none(), "U71.insert.a_new_key_overwrites_nothing");
		// in-order keys afterwards: the old keys plus kb, ascending, each with its own value
		let mut got_k = [0u8; 10];
		let mut got_v = [0u64; 10];
		let mut g = 0;
		let nl = count_seps(&node);
		assert!(packed(&node, false), "U71.insert.left_node_is_packed");
		let mut i = 0;
		while i < nl {
			got_k[g] = sep_key(&node, i);
			got_v[g] = sep_tag(&node, i);
			g += 1;
			i += 1;
		}
		match &up {
			None => assert!(n < ORDER && unsafe { SPLIT_RIGHT.is_none() }, "U71.insert.a_full_leaf_is_split"),
			Some((s, c)) => {
				assert!(n == ORDER, "U71.insert.only_a_full_leaf_is_split");
				let right = unsafe { SPLIT_RIGHT.as_ref() };
				assert!(right.is_some(), "U71.insert.right_node_is_written");
				let right = right.unwrap();
				assert!(packed(right, false), "U71.insert.right_node_is_packed");
				let nr = count_seps(right);
				assert!(nl >= 1 && nr >= 1 && nl + nr == ORDER, "U71.insert.both_halves_hold_keys_and_none_is_lost");
				match s.separator.as_ref() {
					Some(x) => {
						got_k[g] = if x.key.len() == 1 { x.key[0] } else { 0 };
						got_v[g] = x.value.as_u64();
					},
					None => assert!(false, "U71.insert.separator_handed_up_is_a_key"),
				}
				g += 1;
				let mut i = 0;
				while i < nr {
					got_k[g] = sep_key(right, i);
					got_v[g] = sep_tag(right, i);
					g += 1;
					i += 1;
				}
			},
		}
		assert!(g == n + 1, "U71.insert.one_key_more");
		let mut j = 0;
		let mut seen_new = false;
		while j < 10 {
			if j < n + 1 {
				if j > 0 {
					assert!(got_k[j - 1] < got_k[j], "U71.insert.keys_stay_in_ascending_order");
				}
				if got_k[j] == kb {
					seen_new = true;
					assert!(got_v[j] == 5000 + kb as u64, "U71.insert.new_key_carries_the_new_value");
				} else {
					assert!(got_k[j] % 2 == 0 && got_k[j] >= 2 && got_k[j] as usize <= 2 * n && got_v[j] == got_k[j] as u64, "U71.insert.old_keys_keep_their_values");
				}
			}
			j += 1;
		}
		assert!(seen_new, "U71.insert.the_new_key_is_in_the_tree");
	}
	kani::cover!(present || n == 0, "overwrite");
	kani::cover!(!present, "new key");
	std::mem::forget(up);
	std::mem::forget(node);
}

// ================================================================== U72: Node::on_existing at leaf level (depth 0) -- a key leaves a leaf
// Column::write_existing_value_plan (the value entry is released / its count lowered: U8d) is replaced by its contract with a
// scripted outcome: the value is gone (None) or stays (Some).  Leaf keys as in U71.
pub(crate) static mut WEV_GONE: bool = false;
pub(crate) static mut WEV_ADDR: u64 = 0;
pub(crate) static mut WEV_N: usize = 0;
pub(crate) fn stub_write_existing_value_plan<K, V: AsRef<[u8]>>(_key: &TableKey, _tables: TablesRef, address: Address, _change: &Operation<K, V>, _log: &mut LogWriter, _stats: Option<&crate::stats::ColumnStats>, _ref_counted: bool) -> Result<(Option<crate::index::PlanOutcome>, Option<Address>)> {
	unsafe {
		WEV_N += 1;
		WEV_ADDR = address.as_u64();
		if WEV_GONE {
			Ok((None, None))
		} else {
			Ok((Some(crate::index::PlanOutcome::Written), None))
		}
	}
}
fn u72_remove_leaf(n: usize) {
	let tables: [crate::table::ValueTable; 0] = [];
	let no = crate::compress::Compress::new(crate::compress::CompressionType::NoCompression, u32::MAX);
	let tr = TablesRef { tables: &tables, compression: &no, col: 0, preimage: false, ref_counted: false };
	let overlays: &'static crate::parking_lot::RwLock<crate::log::LogOverlays> = Box::leak(Box::new(crate::parking_lot::RwLock::new(crate::log::LogOverlays::with_columns(0))));
	let w: &'static mut LogWriter<'static> = Box::leak(Box::new(LogWriter::new(overlays, 7)));
	let mut node = mk_leaf_keys(n);
	let kb: u8 = kani::any();
	kani::assume(kb >= 1 && (kb as usize) <= 2 * n + 1);
	let gone: bool = kani::any();
	unsafe {
		WEV_GONE = gone;
		WEV_ADDR = 0;
		WEV_N = 0;
	}
	let mut kv = Vec::with_capacity(1);
	kv.push(kb);
	let key: RcKey = kv.into();
	let ops: [Operation<RcKey, RcValue>; 1] = [Operation::Dereference(key)];
	let mut changes: &[Operation<RcKey, RcValue>] = &ops;
	let r = ok(node.on_existing(0, &mut changes, tr, w));
	assert!(r.is_some(), "U72.on_existing.no_error");
	let (up, rebalance) = r.unwrap();
	assert!(up.is_none(), "U72.on_existing.a_removal_hands_nothing_up");
	let present = kb % 2 == 0;
	let nl = count_seps(&node);
	assert!(packed(&node, false), "U72.on_existing.leaf_stays_packed");
	if !present {
		// a key that is not in the tree: nothing is released, nothing changes
		assert!(unsafe { WEV_N } == 0 && nl == n, "U72.on_existing.absent_key_changes_nothing");
	} else {
		// the value entry of exactly that key is released / dereferenced, once
		assert!(unsafe { WEV_N } == 1 && unsafe { WEV_ADDR } == kb as u64, "U72.on_existing.the_value_of_that_key_is_released_once");
		if gone {
			assert!(nl + 1 == n, "U72.on_existing.the_key_leaves_the_leaf");
		} else {
			assert!(nl == n, "U72.on_existing.a_value_that_stays_keeps_its_key");
		}
	}
	// the remaining keys: ascending, each with its own value, exactly the old ones minus (possibly) the removed one
	let mut j = 0;
	let mut expect = 2u8;
	while j < ORDER {
		if j < nl {
			if present && gone && expect == kb {
				expect += 2;
			}
			assert!(sep_key(&node, j) == expect && sep_tag(&node, j) == expect as u64, "U72.on_existing.other_keys_stay_in_order_with_their_values");
			expect += 2;
		}
		j += 1;
	}
	kani::cover!((present && gone) || n == 0, "removed");
	kani::cover!(!present || n == 0, "absent");
	std::mem::forget(up);
	std::mem::forget(node);
}

/*@@GENERATED:btree_node@@*/
