// Appended to /repo/src/table.rs of the scratch copy as a child module (sees private items).
// Units U5 (entry header codec), U6 (chain writer / reader against the on-disk format FMT), U8 (reference
// counter), U14 (free list), U9-value (validate/enact). The bodies under proof are /repo's.
#![allow(dead_code, unused_variables, unused_imports, static_mut_refs, unused_mut)]
use super::*;
use crate::log::{LogWriterValueGuard, LogOverlays};

// ------------------------------------------------------------------ ghost log view (contract of LogWriter)
// "finite map index -> bytes; last write wins; what was inserted is what is read back".
pub(crate) const VES: usize = 64; // max bytes per ghost slot
pub(crate) const NSLOT: usize = 8;
pub(crate) const NREC: usize = 8;
// one static per slot, each small enough (<= 64 bytes) for CBMC's field-sensitive constant propagation, so that
// structure bytes written concretely by a harness stay concrete for the symbolic executor
pub(crate) static mut V0: [u8; VES] = [0u8; VES];
pub(crate) static mut V1: [u8; VES] = [0u8; VES];
pub(crate) static mut V2: [u8; VES] = [0u8; VES];
pub(crate) static mut V3: [u8; VES] = [0u8; VES];
pub(crate) static mut V4: [u8; VES] = [0u8; VES];
pub(crate) static mut V5: [u8; VES] = [0u8; VES];
pub(crate) static mut V6: [u8; VES] = [0u8; VES];
pub(crate) static mut V7: [u8; VES] = [0u8; VES];
pub(crate) static mut VIEW_LEN: [usize; NSLOT] = [0; NSLOT];
pub(crate) static mut VIEW_PRESENT: [bool; NSLOT] = [false; NSLOT];
pub(crate) static mut REC_N: usize = 0;
pub(crate) static mut REC_IDX: [u64; NREC] = [0; NREC];
pub(crate) static mut REC_LEN: [usize; NREC] = [0; NREC];
pub(crate) static mut REC_DATA: [[u8; VES]; NREC] = [[0u8; VES]; NREC];
pub(crate) static mut READS: usize = 0;

unsafe fn slot(i: usize) -> &'static mut [u8; VES] {
	match i {
		0 => &mut V0,
		1 => &mut V1,
		2 => &mut V2,
		3 => &mut V3,
		4 => &mut V4,
		5 => &mut V5,
		6 => &mut V6,
		_ => &mut V7,
	}
}

pub(crate) fn stub_insert_value<'a>(_w: &mut LogWriter<'a>, _table: TableId, index: u64, data: Vec<u8>)
where
	'a: 'a,
{
	unsafe {
		assert!(REC_N < NREC, "verif: recorder full");
		assert!((index as usize) < NSLOT, "verif: slot outside ghost view");
		assert!(data.len() <= VES, "verif: record larger than ghost slot");
		let n = REC_N;
		REC_IDX[n] = index;
		REC_LEN[n] = data.len();
		REC_DATA[n][..data.len()].copy_from_slice(&data);
		REC_N = n + 1;
		let i = index as usize;
		slot(i)[..data.len()].copy_from_slice(&data);
		VIEW_LEN[i] = data.len();
		VIEW_PRESENT[i] = true;
	}
}

pub(crate) fn stub_value<'a>(_w: &LogWriter<'a>, _table: TableId, index: u64, dest: &mut [u8]) -> bool
where
	'a: 'a,
{
	unsafe {
		READS += 1;
		let i = index as usize;
		if i < NSLOT && VIEW_PRESENT[i] {
			let len = if dest.len() < VIEW_LEN[i] { dest.len() } else { VIEW_LEN[i] };
			dest[0..len].copy_from_slice(&slot(i)[0..len]);
			true
		} else {
			false
		}
	}
}

pub(crate) fn stub_value_ref<'a, 'v>(_w: &'v LogWriter<'a>, _table: TableId, index: u64) -> Option<LogWriterValueGuard<'v>>
where
	'a: 'a,
{
	unsafe {
		READS += 1;
		let i = index as usize;
		if i < NSLOT && VIEW_PRESENT[i] {
			Some(LogWriterValueGuard::Local(&slot(i)[0..VIEW_LEN[i]]))
		} else {
			None
		}
	}
}

fn ghost_reset() {
	unsafe {
		REC_N = 0;
		READS = 0;
		VIEW_PRESENT = [false; NSLOT];
	}
}

// whole-array assignment (not memcpy) so that concretely written structure bytes stay concrete for the symbolic executor
fn view_put(i: usize, data: [u8; VES], len: usize) {
	unsafe {
		*slot(i) = data;
		VIEW_LEN[i] = len;
		VIEW_PRESENT[i] = true;
	}
}
fn put_u64(e: &mut [u8; VES], at: usize, v: u64) {
	e[at] = v as u8;
	e[at + 1] = (v >> 8) as u8;
	e[at + 2] = (v >> 16) as u8;
	e[at + 3] = (v >> 24) as u8;
	e[at + 4] = (v >> 32) as u8;
	e[at + 5] = (v >> 40) as u8;
	e[at + 6] = (v >> 48) as u8;
	e[at + 7] = (v >> 56) as u8;
}
fn tombstone_entry(next: u64) -> [u8; VES] {
	let mut e = [0u8; VES];
	e[0] = 0xff;
	e[1] = 0xff;
	put_u64(&mut e, 2, next);
	e
}

macro_rules! table_harness {
	($(#[$m:meta])* $name:ident, $body:expr) => {
		#[kani::proof]
		#[kani::solver(kissat)]
		$(#[$m])*
		#[kani::stub(crate::file::TableFile::read_at, stub_read_at)]
		#[kani::stub(crate::log::LogWriter::insert_value, stub_insert_value)]
		#[kani::stub(<crate::log::LogWriter as crate::log::LogQuery>::value, stub_value)]
		#[kani::stub(<crate::log::LogWriter as crate::log::LogQuery>::value_ref, stub_value_ref)]
		#[kani::stub(std::hash::RandomState::new, crate::verif_stubs::random_state_new)]
		#[kani::stub(parking_lot::RawRwLock::lock_shared_slow, crate::verif_stubs::lock_shared_slow)]
		#[kani::stub(parking_lot::RawRwLock::unlock_shared_slow, crate::verif_stubs::unlock_shared_slow)]
		#[kani::stub(parking_lot::RawRwLock::lock_exclusive_slow, crate::verif_stubs::lock_exclusive_slow)]
		#[kani::stub(parking_lot::RawRwLock::unlock_exclusive_slow, crate::verif_stubs::unlock_exclusive_slow)]
		#[kani::stub(std::fmt::format, crate::verif_stubs::fmt_format)]
		fn $name() {
			$body
		}
	};
}

// Never drop a `Result<_, Error>` whose discriminant is symbolic: the drop glue of `std::io::Error` (dyn Error vtables)
// dominates CBMC's cost. Every call under test goes through `ok`.
fn ok<T>(r: Result<T>) -> Option<T> {
	match r {
		Ok(v) => Some(v),
		Err(e) => {
			std::mem::forget(e);
			None
		},
	}
}

pub(crate) fn mk_table_tier(entry_size: u16, multipart: bool, ref_counted: bool, tier: u8) -> ValueTable {
	let mut t = mk_table(entry_size, multipart, ref_counted, 1, 0);
	t.id = TableId::new(0, tier);
	t.file.id = t.id;
	t
}
pub(crate) fn mk_table(entry_size: u16, multipart: bool, ref_counted: bool, filled: u64, last_removed: u64) -> ValueTable {
	let id = TableId::new(0, if multipart { 255 } else { 3 });
	ValueTable {
		id,
		entry_size,
		file: crate::file::TableFile {
			map: RwLock::new(None),
			path: std::path::PathBuf::new(),
			capacity: AtomicU64::new(0),
			id,
		},
		filled: AtomicU64::new(filled),
		written: AtomicU64::new(filled),
		last_removed: AtomicU64::new(last_removed),
		dirty_header: AtomicBool::new(false),
		needs_free_entries: false,
		free_entries: None,
		multipart,
		ref_counted,
		db_version: crate::options::CURRENT_VERSION,
	}
}

// ================================================================== U5: entry header codec
#[kani::proof]
fn u5_size_codec() {
	let s: u16 = kani::any();
	let c: bool = kani::any();
	kani::assume(s <= 0x7fff);
	let mut e = Entry::new([0u8; 10]);
	e.write_size(s, c);
	assert!(e.offset() == 2, "U5.size.offset_advanced");
	e.set_offset(0);
	let (s2, c2) = e.read_size();
	assert!(s2 == s && c2 == c, "U5.size.roundtrip");
	assert!(e.offset() == 2);
	if s as usize <= MAX_ENTRY_SIZE {
		// a legal (size, flag) word is never one of the four markers: the classifier is a partition
		assert!(!e.is_tombstone(), "U5.size.not_tombstone");
		assert!(!e.is_multipart(), "U5.size.not_multipart");
		assert!(!e.is_multihead(), "U5.size.not_multihead");
		assert!(!e.is_multihead_compressed(), "U5.size.not_multihead_compressed");
		assert!(!e.is_multi(crate::options::CURRENT_VERSION), "U5.size.not_multi");
	}
	kani::cover!(s as usize == MAX_ENTRY_SIZE && c);
}

#[kani::proof]
fn u5_markers() {
	let mut t = Entry::new([0u8; 10]);
	t.write_tombstone();
	assert!(t.offset() == 2);
	assert!(t.is_tombstone() && !t.is_multi(crate::options::CURRENT_VERSION), "U5.marker.tombstone");
	let mut m = Entry::new([0u8; 10]);
	m.write_multipart();
	assert!(m.is_multipart() && !m.is_multihead() && !m.is_tombstone() && m.is_multi(crate::options::CURRENT_VERSION), "U5.marker.multipart");
	let mut h = Entry::new([0u8; 10]);
	h.write_multihead();
	assert!(h.is_multihead() && !h.is_multihead_compressed() && !h.is_multipart() && !h.is_tombstone() && h.is_multi(crate::options::CURRENT_VERSION), "U5.marker.multihead");
	let mut hc = Entry::new([0u8; 10]);
	hc.write_multihead_compressed();
	assert!(hc.is_multihead() && hc.is_multihead_compressed() && !hc.is_multipart() && !hc.is_tombstone() && hc.is_multi(crate::options::CURRENT_VERSION), "U5.marker.multihead_compressed");
	// the markers decode (as a size word) to sizes above MAX_ENTRY_SIZE
	for e in [&mut t, &mut m, &mut h, &mut hc] {
		e.set_offset(0);
		let (s, _c) = e.read_size();
		assert!(s as usize > MAX_ENTRY_SIZE, "U5.marker.outside_legal_sizes");
	}
}

#[kani::proof]
fn u5_int_codecs() {
	let pre: [u8; 40] = kani::any();
	let mut e = Entry::new(pre);
	let o: usize = kani::any();
	kani::assume(o <= 28);
	let a: u64 = kani::any();
	let b: u32 = kani::any();
	e.set_offset(o);
	e.write_next(a);
	assert!(e.offset() == o + 8, "U5.next.offset_advanced");
	e.write_rc(b);
	assert!(e.offset() == o + 12, "U5.rc.offset_advanced");
	e.set_offset(o);
	assert!(e.read_next() == a, "U5.next.roundtrip");
	assert!(e.read_rc() == b, "U5.rc.roundtrip");
	assert!(e.offset() == o + 12);
	let q: usize = kani::any();
	kani::assume(q < 40 && (q < o || q >= o + 12));
	assert!(e.as_ref()[q] == pre[q], "U5.int.frame");
	// little endian
	assert!(e.as_ref()[o] == (a & 0xff) as u8 && e.as_ref()[o + 7] == (a >> 56) as u8, "U5.next.little_endian");
	assert!(e.as_ref()[o + 8] == (b & 0xff) as u8 && e.as_ref()[o + 11] == (b >> 24) as u8, "U5.rc.little_endian");
	e.set_offset(o);
	e.write_u64(a);
	e.write_u32(b);
	e.set_offset(o);
	assert!(e.read_u64() == a && e.read_u32() == b, "U5.u64_u32.roundtrip");
	e.set_offset(o);
	e.skip_size();
	assert!(e.offset() == o + 2);
	e.skip_next();
	assert!(e.offset() == o + 10, "U5.skip_offsets");
}

#[kani::proof]
fn u5_header() {
	let mut h = Header(kani::any());
	let a: u64 = kani::any();
	let b: u64 = kani::any();
	let f0 = h.filled();
	h.set_last_removed(a);
	assert!(h.last_removed() == a && h.filled() == f0, "U5.header.last_removed_independent");
	h.set_filled(b);
	assert!(h.last_removed() == a && h.filled() == b, "U5.header.filled_independent");
	assert!(h.0[0] == (a & 0xff) as u8 && h.0[8] == (b & 0xff) as u8 && h.0[15] == (b >> 56) as u8, "U5.header.layout");
}

#[kani::proof]
fn u5_value_size() {
	let es: u16 = kani::any();
	kani::assume(es as usize >= MIN_ENTRY_SIZE && es as usize <= MAX_ENTRY_SIZE);
	let rc: bool = kani::any();
	let t = mk_table(es, false, rc, 1, 0);
	let k = TableKey::Partial(kani::any());
	let vs = t.value_size(&k);
	let base = es as i32 - 2 - if rc { 4 } else { 0 };
	assert!(vs == if base >= 26 { Some((base - 26) as u16) } else { None }, "U5.value_size.partial_key");
	assert!(t.value_size(&TableKey::NoHash) == Some(base as u16), "U5.value_size.no_hash");
	assert!(t.ref_size() == if rc { 4 } else { 0 });
	assert!(k.encoded_size() == 26 && TableKey::NoHash.encoded_size() == 0);
	kani::cover!(vs.is_none(), "opt: no room for a key");
	kani::cover!(vs == Some(0));
}

#[kani::proof]
fn u5_table_id() {
	let c: u8 = kani::any();
	let t: u8 = kani::any();
	let id = TableId::new(c, t);
	assert!(id.col() == c && id.size_tier() == t, "U5.tableid.roundtrip");
	assert!(TableId::from_log_index(id.log_index()) == id, "U5.tableid.log_index_roundtrip");
	assert!(id.log_index() < TableId::max_log_tables(c as usize + 1), "U5.tableid.log_index_in_range");
	assert!(TableId::from_u16(id.as_u16()) == id);
}


// ================================================================== FMT: the on-disk entry format (table.rs:4-45) as a specification
// S = [rc: 4 LE]? ++ [key tail: 26]? ++ value ; a chain stores S in parts:
//   non-last part p : [marker 2][next 8][S[p*(es-10) .. (p+1)*(es-10))]     (marker: head fd ff / fd 7f if compressed, later fe ff)
//   last part       : [size | 0x8000 if compressed : 2][remaining bytes of S]
fn hdr_len(rc: bool, has_key: bool) -> usize {
	(if rc { 4 } else { 0 }) + (if has_key { 26 } else { 0 })
}
fn s_byte(rc: bool, rcv: u32, has_key: bool, key: &crate::Key, value: &[u8], t: usize) -> u8 {
	let mut t = t;
	if rc {
		if t < 4 {
			return (rcv >> (8 * t as u32)) as u8
		}
		t -= 4;
	}
	if has_key {
		if t < 26 {
			return key[6 + t]
		}
		t -= 26;
	}
	value[t]
}
// number of parts and size of the last part for a stream of r bytes in entries of es bytes
fn fmt_parts(es: usize, r: usize) -> (usize, usize) {
	let mut rem = r;
	let mut n = 1;
	while rem > es - 2 {
		rem -= es - 10;
		n += 1;
	}
	(n, rem)
}
fn fmt_byte(es: usize, nparts: usize, last: usize, p: usize, q: usize, next: u64, compressed: bool, sb: u8) -> u8 {
	// expected byte q of part p given the S byte `sb` that belongs at this position
	if p + 1 < nparts {
		if q == 0 {
			if p == 0 { 0xfd } else { 0xfe }
		} else if q == 1 {
			if p == 0 && compressed { 0x7f } else { 0xff }
		} else if q < 10 {
			(next >> (8 * (q as u32 - 2))) as u8
		} else {
			sb
		}
	} else if q == 0 {
		(last & 0xff) as u8
	} else if q == 1 {
		((last >> 8) as u8) | if compressed { 0x80 } else { 0 }
	} else {
		sb
	}
}
fn fmt_s_index(es: usize, nparts: usize, p: usize, q: usize) -> usize {
	if p + 1 < nparts { p * (es - 10) + (q - 10) } else { p * (es - 10) + (q - 2) }
}

// ================================================================== U6-W: chain writer, insert mode
// shape (entry size, table kind, key kind, value length, free-list length) concrete; value/key bytes, flag symbolic
fn w_insert(es: usize, multipart: bool, rc: bool, has_key: bool, len: usize, free: usize, nparts: usize, last: usize) {
	const F: u64 = 5; // fill mark
	const A: [u64; 2] = [2, 4]; // free slots, head first
	let hdr = hdr_len(rc, has_key);
	// (nparts, last) = fmt_parts(es, len + hdr), computed by the generator so that the harness has no loop of its own
	ghost_reset();
	if free >= 1 {
		view_put(A[0] as usize, tombstone_entry(if free >= 2 { A[1] } else { 0 }), 10);
	}
	if free >= 2 {
		view_put(A[1] as usize, tombstone_entry(0), 10);
	}
	let t = mk_table(es as u16, multipart, rc, F, if free >= 1 { A[0] } else { 0 });
	let key: crate::Key = kani::any();
	let tk = if has_key { TableKey::Partial(key) } else { TableKey::NoHash };
	let vbuf: [u8; VES * 3] = kani::any();
	let value = &vbuf[..len];
	let compressed: bool = kani::any();
	let overlays = RwLock::new(LogOverlays::with_columns(0));
	let mut w = LogWriter::new(&overlays, 9);
	let r = ok(t.write_insert_plan(&tk, value, &mut w, compressed));
	let slot = |p: usize| -> u64 { if p < free { A[p] } else { F + (p - free) as u64 } };
	match r {
		Some(start) => assert!(start == slot(0), "U6.W.insert.returns_head_slot"),
		None => assert!(false, "U6.W.insert.no_error"),
	}
	let n = unsafe { REC_N };
	assert!(n == nparts, "U6.W.insert.one_record_per_part");
	let p: usize = kani::any();
	kani::assume(p < nparts);
	let (ri, rl) = unsafe { (REC_IDX[p], REC_LEN[p]) };
	assert!(ri == slot(p), "U6.W.insert.slots_free_list_lifo_then_fill_mark");
	assert!(rl == if p + 1 < nparts { es } else { 2 + last }, "U6.W.insert.record_length");
	let q: usize = kani::any();
	kani::assume(q < rl);
	let hdr_q = if p + 1 < nparts { 10 } else { 2 };
	let sb = if q >= hdr_q { s_byte(rc, 1, has_key, &key, value, fmt_s_index(es, nparts, p, q)) } else { 0 };
	let got = unsafe { REC_DATA[p][q] };
	assert!(got == fmt_byte(es, nparts, last, p, q, slot(p + 1), compressed, sb), "U6.W.insert.bytes_match_format");
	// free list / fill mark bookkeeping
	let popped = if nparts < free { nparts } else { free };
	assert!(t.filled.load(Ordering::Relaxed) == F + (nparts - popped) as u64, "U6.W.insert.filled_advanced_by_fresh_slots");
	let lr = t.last_removed.load(Ordering::Relaxed);
	assert!(lr == if popped < free { A[popped] } else { 0 }, "U6.W.insert.free_list_head_after_pops");
	assert!(t.dirty_header.load(Ordering::Relaxed), "U6.W.insert.header_marked_dirty");
	kani::cover!(compressed, "compressed");
}

// ================================================================== U6-W: chain writer, replace mode (in-place overwrite to another length)
fn w_replace(es: usize, rc: bool, has_key: bool, old_parts: usize, len: usize, claimed: bool, nparts: usize, last: usize) {
	const F: u64 = 5;
	const OLD: [u64; 3] = [3, 1, 2]; // slots of the existing chain, in chain order
	let hdr = hdr_len(rc, has_key);
	// (nparts, last) = fmt_parts(es, len + hdr), computed by the generator so that the harness has no loop of its own
	ghost_reset();
	// the existing chain: only its structure (marker + next link) matters to the writer; everything else symbolic
	let mut e0: [u8; VES] = kani::any();
	let mut e1: [u8; VES] = kani::any();
	let mut e2: [u8; VES] = kani::any();
	if old_parts >= 2 {
		// the head of the stored chain carries the plain or the compressed head marker (fd ff / fd 7f): both are links
		let old_compressed: bool = kani::any();
		e0[0] = 0xfd;
		e0[1] = if old_compressed { 0x7f } else { 0xff };
		put_u64(&mut e0, 2, OLD[1]);
	} else {
		e0[0] = 7;
		e0[1] = 0;
	}
	view_put(OLD[0] as usize, e0, es);
	if old_parts >= 3 {
		e1[0] = 0xfe;
		e1[1] = 0xff;
		put_u64(&mut e1, 2, OLD[2]);
	} else {
		e1[0] = 7;
		e1[1] = 0;
	}
	if old_parts >= 2 {
		view_put(OLD[1] as usize, e1, es);
	}
	e2[0] = 7;
	e2[1] = 0;
	if old_parts >= 3 {
		view_put(OLD[2] as usize, e2, es);
	}
	let t = mk_table(es as u16, true, rc, F, 0);
	let key: crate::Key = kani::any();
	let tk = if has_key { TableKey::Partial(key) } else { TableKey::NoHash };
	let vbuf: [u8; VES * 3] = kani::any();
	let value = &vbuf[..len];
	let compressed: bool = kani::any();
	let overlays = RwLock::new(LogOverlays::with_columns(0));
	let mut w = LogWriter::new(&overlays, 9);
	let r = if claimed {
		ok(t.write_claimed_plan(OLD[0], &tk, value, &mut w, compressed))
	} else {
		ok(t.write_replace_plan(OLD[0], &tk, value, &mut w, compressed))
	};
	assert!(r.is_some(), "U6.W.replace.no_error");
	// a claimed slot is a bare slot: nothing of an old chain is followed
	let reuse = if claimed { 1 } else { old_parts };
	let slot = |p: usize| -> u64 { if p < reuse { OLD[p] } else { F + (p - reuse) as u64 } };
	let surplus = if nparts < reuse { reuse - nparts } else { 0 };
	let n = unsafe { REC_N };
	assert!(n == nparts + surplus, "U6.W.replace.records_new_parts_plus_freed_parts");
	let p: usize = kani::any();
	kani::assume(p < nparts);
	let (ri, rl) = unsafe { (REC_IDX[p], REC_LEN[p]) };
	assert!(ri == slot(p), "U6.W.replace.reuses_old_slots_then_allocates");
	assert!(rl == if p + 1 < nparts { es } else { 2 + last }, "U6.W.replace.record_length");
	let q: usize = kani::any();
	kani::assume(q < rl);
	let hdr_q = if p + 1 < nparts { 10 } else { 2 };
	let sb = if q >= hdr_q { s_byte(rc, 1, has_key, &key, value, fmt_s_index(es, nparts, p, q)) } else { 0 };
	let got = unsafe { REC_DATA[p][q] };
	assert!(got == fmt_byte(es, nparts, last, p, q, slot(p + 1), compressed, sb), "U6.W.replace.bytes_match_format");
	// surplus old parts are released: each becomes a tombstone linked in front of the previous free-list head
	if surplus > 0 {
		let s: usize = kani::any();
		kani::assume(s < surplus);
		let (ti, tl) = unsafe { (REC_IDX[nparts + s], REC_LEN[nparts + s]) };
		assert!(ti == OLD[nparts + s], "U6.W.replace.surplus_parts_freed_in_chain_order");
		assert!(tl == 10, "U6.W.replace.tombstone_length");
		let tq: usize = kani::any();
		kani::assume(tq < 10);
		let prev: u64 = if s == 0 { 0 } else { OLD[nparts + s - 1] };
		let exp = if tq < 2 { 0xff } else { (prev >> (8 * (tq as u32 - 2))) as u8 };
		assert!(unsafe { REC_DATA[nparts + s][tq] } == exp, "U6.W.replace.tombstone_links_previous_head");
		assert!(t.last_removed.load(Ordering::Relaxed) == OLD[reuse - 1], "U6.W.replace.free_list_head_is_last_freed");
	} else {
		assert!(t.last_removed.load(Ordering::Relaxed) == 0, "U6.W.replace.free_list_untouched");
	}
	let fresh = if nparts > reuse { nparts - reuse } else { 0 };
	assert!(t.filled.load(Ordering::Relaxed) == F + fresh as u64, "U6.W.replace.filled_advanced_by_fresh_slots");
	assert!(t.dirty_header.load(Ordering::Relaxed) == (fresh > 0 || surplus > 0), "U6.W.replace.header_dirty_iff_changed");
}

// ================================================================== U6-R: chain reader
// builds an FMT chain in the log view (structure concrete, contents symbolic) and checks query/size/partial_key_at
// the chain is three symbolic entries with the structure bytes (marker / next link / size word) constrained by
// assumption; the expected result is *read off* the entries according to FMT (loop-free set-up)
struct Chain {
	e: [[u8; VES]; 3],
	es: usize,
	nparts: usize,
	last: usize,
	compressed: bool,
}
const SLOTS: [u64; 3] = [3, 1, 2];
// structure bytes are written concretely (so that the chain's shape is concrete for the symbolic executor),
// every other byte stays symbolic
fn r_build(es: usize, nparts: usize, last: usize, compressed: bool) -> Chain {
	ghost_reset();
	let a0: [u8; VES] = kani::any();
	let a1: [u8; VES] = kani::any();
	let a2: [u8; VES] = kani::any();
	let mut c = Chain { e: [a0, a1, a2], es, nparts, last, compressed };
	let sizeword = (last as u16) | if compressed { 0x8000 } else { 0 };
	let lp = nparts - 1;
	c.e[lp][0] = (sizeword & 0xff) as u8;
	c.e[lp][1] = (sizeword >> 8) as u8;
	if nparts >= 2 {
		c.e[0][0] = 0xfd;
		c.e[0][1] = if compressed { 0x7f } else { 0xff };
		put_u64(&mut c.e[0], 2, SLOTS[1]);
		view_put(SLOTS[0] as usize, c.e[0], es);
	}
	if nparts >= 3 {
		c.e[1][0] = 0xfe;
		c.e[1][1] = 0xff;
		put_u64(&mut c.e[1], 2, SLOTS[2]);
		view_put(SLOTS[1] as usize, c.e[1], es);
	}
	view_put(SLOTS[lp] as usize, c.e[lp], 2 + last);
	c
}
impl Chain {
	// byte t of the stream S stored by the chain
	fn s(&self, t: usize) -> u8 {
		let cap = self.es - 10;
		if self.nparts == 1 {
			self.e[0][2 + t]
		} else if t < cap {
			self.e[0][10 + t]
		} else if self.nparts == 2 {
			self.e[1][2 + (t - cap)]
		} else if t < 2 * cap {
			self.e[1][10 + (t - cap)]
		} else {
			self.e[2][2 + (t - 2 * cap)]
		}
	}
	fn total(&self) -> usize {
		(self.nparts - 1) * (self.es - 10) + self.last
	}
}

fn assume_key_tail(key: &crate::Key, c: &Chain, ko: usize) {
	kani::assume(key[6] == c.s(ko) && key[7] == c.s(ko + 1) && key[8] == c.s(ko + 2) && key[9] == c.s(ko + 3));
	kani::assume(key[10] == c.s(ko + 4) && key[11] == c.s(ko + 5) && key[12] == c.s(ko + 6) && key[13] == c.s(ko + 7));
	kani::assume(key[14] == c.s(ko + 8) && key[15] == c.s(ko + 9) && key[16] == c.s(ko + 10) && key[17] == c.s(ko + 11));
	kani::assume(key[18] == c.s(ko + 12) && key[19] == c.s(ko + 13) && key[20] == c.s(ko + 14) && key[21] == c.s(ko + 15));
	kani::assume(key[22] == c.s(ko + 16) && key[23] == c.s(ko + 17) && key[24] == c.s(ko + 18) && key[25] == c.s(ko + 19));
	kani::assume(key[26] == c.s(ko + 20) && key[27] == c.s(ko + 21) && key[28] == c.s(ko + 22) && key[29] == c.s(ko + 23));
	kani::assume(key[30] == c.s(ko + 24) && key[31] == c.s(ko + 25));
}

fn r_query(es: usize, multipart: bool, rc: bool, has_key: bool, nparts: usize, last: usize, mode: u8) {
	r_query_c(es, multipart, rc, has_key, nparts, last, mode, false);
	r_query_c(es, multipart, rc, has_key, nparts, last, mode, true);
}
fn r_query_c(es: usize, multipart: bool, rc: bool, has_key: bool, nparts: usize, last: usize, mode: u8, compressed: bool) {
	// mode 0: live entry, matching key; 1: counter zero; 2: key mismatch
	let c = r_build(es, nparts, last, compressed);
	let hdr = hdr_len(rc, has_key);
	let rcv = if rc { u32::from_le_bytes([c.s(0), c.s(1), c.s(2), c.s(3)]) } else { 1 };
	let ko = if rc { 4 } else { 0 };
	let t = mk_table(es as u16, multipart, rc, 5, 0);
	let key: crate::Key = kani::any();
	let d: usize = kani::any();
	kani::assume(d < 26);
	let same_key = mode != 2;
	kani::assume(if mode == 1 { rcv == 0 } else { rcv != 0 });
	if has_key {
		if same_key {
			assume_key_tail(&key, &c, ko);
		} else {
			kani::assume(key[6 + d] != c.s(ko + d));
		}
	}
	let tk = if has_key { TableKey::Partial(key) } else { TableKey::NoHash };
	let overlays = RwLock::new(LogOverlays::with_columns(0));
	let w = LogWriter::new(&overlays, 9);
	let r = ok(t.query(&mut TableKeyQuery::Check(&tk), SLOTS[0], &w));
	let live = rcv != 0 && (!has_key || same_key);
	let vlen = c.total() - hdr;
	match r {
		Some(Some((v, cf, n))) => {
			assert!(live, "U6.R.query.some_only_if_live_and_key_matches");
			assert!(v.len() == vlen, "U6.R.query.length");
			assert!(cf == c.compressed, "U6.R.query.compressed_flag");
			assert!(n == rcv, "U6.R.query.ref_count");
			let q: usize = kani::any();
			if q < vlen {
				assert!(v[q] == c.s(hdr + q), "U6.R.query.bytes");
			}
		},
		Some(None) => assert!(!live, "U6.R.query.none_only_if_dead_or_key_mismatch"),
		None => assert!(false, "U6.R.query.no_error_on_wellformed_chain"),
	}
	kani::cover!(live == (mode == 0), "reached");
}

fn r_size_and_key(es: usize, multipart: bool, rc: bool, nparts: usize, last: usize) {
	let c = r_build(es, nparts, last, false);
	let hdr = hdr_len(rc, true);
	let rcv = if rc { u32::from_le_bytes([c.s(0), c.s(1), c.s(2), c.s(3)]) } else { 1 };
	kani::assume(rcv != 0);
	let ko = if rc { 4 } else { 0 };
	let t = mk_table(es as u16, multipart, rc, 5, 0);
	let key: crate::Key = kani::any();
	assume_key_tail(&key, &c, ko);
	let tk = TableKey::Partial(key);
	let overlays = RwLock::new(LogOverlays::with_columns(0));
	let w = LogWriter::new(&overlays, 9);
	match ok(t.size(&tk, SLOTS[0], &w)) {
		Some(Some((n, cf))) => assert!(n as usize == c.total() - hdr && cf == c.compressed, "U6.R.size.equals_value_length"),
		_ => assert!(false, "U6.R.size.some"),
	}
	match ok(t.partial_key_at(SLOTS[0], &w)) {
		Some(Some(k)) => {
			let d: usize = kani::any();
			kani::assume(d < 26);
			assert!(k[d] == c.s(ko + d), "U6.R.partial_key_at.returns_stored_tail");
		},
		_ => assert!(false, "U6.R.partial_key_at.some"),
	}
	assert!(ok(t.has_key_at(SLOTS[0], &tk, &w)) == Some(true), "U6.R.has_key_at.true_for_stored_key");
}

fn r_dead(es: usize, multipart: bool) {
	// a tombstone, and (multipart tables) a non-head part, are not values
	ghost_reset();
	let mut tb: [u8; VES] = kani::any();
	tb[0] = 0xff;
	tb[1] = 0xff;
	view_put(3, tb, 10);
	let t = mk_table(es as u16, multipart, kani::any(), 5, 0);
	let overlays = RwLock::new(LogOverlays::with_columns(0));
	let w = LogWriter::new(&overlays, 9);
	let tk = TableKey::NoHash;
	assert!(matches!(ok(t.query(&mut TableKeyQuery::Check(&tk), 3, &w)), Some(None)), "U6.R.tombstone_is_not_a_value");
	assert!(ok(t.is_tombstone(3, &w)) == Some(true), "U6.R.is_tombstone");
	assert!(ok(t.has_key_at(3, &tk, &w)) == Some(false), "U6.R.has_key_at.false_for_tombstone");
	if multipart {
		let mut e: [u8; VES] = kani::any();
		e[0] = 0xfe;
		e[1] = 0xff;
		view_put(1, e, es);
		assert!(matches!(ok(t.query(&mut TableKeyQuery::Check(&tk), 1, &w)), Some(None)), "U6.R.continuation_part_is_not_a_value");
	}
}


// ================================================================== U8: reference counter transition
fn u8_change_ref(multihead: bool, compressed: bool) {
	ghost_reset();
	let es = 48usize;
	let mut e: [u8; VES] = kani::any();
	let pre = e;
	let (hq, total) = if multihead {
		e[0] = 0xfd;
		e[1] = if compressed { 0x7f } else { 0xff };
		(10usize, es)
	} else {
		e[0] = 40;
		e[1] = if compressed { 0x80 } else { 0 };
		(2usize, 42usize)
	};
	view_put(3, e, total);
	let c0 = u32::from_le_bytes([e[hq], e[hq + 1], e[hq + 2], e[hq + 3]]);
	let t = mk_table(es as u16, multihead, true, 5, 0);
	let overlays = RwLock::new(LogOverlays::with_columns(0));
	let mut w = LogWriter::new(&overlays, 9);
	let up: bool = kani::any();
	let r = ok(t.change_ref(3, if up { 1 } else { -1 }, &mut w));
	let n = unsafe { REC_N };
	let expect: Option<u32> = if up {
		Some(if c0 >= u32::MAX - 1 { u32::MAX } else { c0 + 1 })
	} else if c0 == u32::MAX {
		Some(u32::MAX)
	} else if c0 >= 2 {
		Some(c0 - 1)
	} else {
		None
	};
	match r {
		Some(alive) => {
			assert!(alive == expect.is_some(), "U8.change_ref.alive_iff_counter_stays_positive");
			match expect {
				None => assert!(n == 0, "U8.change_ref.nothing_written_when_count_reaches_zero"),
				Some(c1) => {
					assert!(n == 1, "U8.change_ref.exactly_one_record");
					let (ri, rl) = unsafe { (REC_IDX[0], REC_LEN[0]) };
					assert!(ri == 3 && rl == total, "U8.change_ref.rewrites_same_slot_same_length");
					let got = unsafe { u32::from_le_bytes([REC_DATA[0][hq], REC_DATA[0][hq + 1], REC_DATA[0][hq + 2], REC_DATA[0][hq + 3]]) };
					assert!(got == c1, "U8.change_ref.counter_transition");
					let q: usize = kani::any();
					kani::assume(q < total && (q < hq || q >= hq + 4));
					assert!(unsafe { REC_DATA[0][q] } == e[q], "U8.change_ref.frame_value_and_key_untouched");
				},
			}
		},
		None => assert!(false, "U8.change_ref.no_error"),
	}
	kani::cover!(up && c0 == u32::MAX - 1, "increment into the locked value");
	kani::cover!(!up && c0 == 1, "decrement to zero");
	kani::cover!(!up && c0 == u32::MAX, "locked stays locked");
}

fn b_u8_dec_ref_frees() {
	// write_dec_ref at count 1 frees the slot (tombstone pushed on the free list) and reports `false`
	ghost_reset();
	let es = 48usize;
	let mut e: [u8; VES] = kani::any();
	e[0] = 40;
	e[1] = 0;
	e[2] = 1;
	e[3] = 0;
	e[4] = 0;
	e[5] = 0;
	view_put(3, e, 42);
	let old_head: u64 = kani::any();
	kani::assume(old_head < 5);
	let t = mk_table(es as u16, false, true, 5, old_head);
	let overlays = RwLock::new(LogOverlays::with_columns(0));
	let mut w = LogWriter::new(&overlays, 9);
	let r = ok(t.write_dec_ref(3, &mut w));
	assert!(r == Some(false), "U8.dec_ref.reports_removed_at_zero");
	assert!(unsafe { REC_N } == 1 && unsafe { REC_IDX[0] } == 3 && unsafe { REC_LEN[0] } == 10, "U8.dec_ref.slot_tombstoned");
	let tq: usize = kani::any();
	kani::assume(tq < 10);
	let exp = if tq < 2 { 0xff } else { (old_head >> (8 * (tq as u32 - 2))) as u8 };
	assert!(unsafe { REC_DATA[0][tq] } == exp, "U8.dec_ref.tombstone_links_previous_head");
	assert!(t.last_removed.load(Ordering::Relaxed) == 3, "U8.dec_ref.slot_is_new_free_list_head");
	assert!(t.dirty_header.load(Ordering::Relaxed), "U8.dec_ref.header_marked_dirty");
	// inc on the (now) tombstone is refused
	let r2 = ok(t.change_ref(3, 1, &mut w));
	assert!(r2 == Some(false), "U8.change_ref.tombstone_refused");
}

// ================================================================== U14: free list and table header
fn b_u14_free_list() {
	ghost_reset();
	let es = 48usize;
	let filled: u64 = kani::any();
	kani::assume(filled >= 4 && filled <= 7);
	let head: u64 = kani::any();
	kani::assume(head < filled && head != 3);
	if head != 0 {
		// existing head is a tombstone with an arbitrary in-range link
		let nx: u64 = kani::any();
		kani::assume(nx < filled);
		view_put(1, tombstone_entry(nx), 10);
		view_put(2, tombstone_entry(nx), 10);
		view_put(4, tombstone_entry(nx), 10);
		view_put(5, tombstone_entry(nx), 10);
		view_put(6, tombstone_entry(nx), 10);
	}
	let t = mk_table(es as u16, false, false, filled, head);
	let overlays = RwLock::new(LogOverlays::with_columns(0));
	let mut w = LogWriter::new(&overlays, 9);
	// free slot 3
	assert!(ok(t.clear_slot(3, &mut w)).is_some());
	assert!(unsafe { REC_N } == 1 && unsafe { REC_IDX[0] } == 3 && unsafe { REC_LEN[0] } == 10, "U14.clear_slot.one_tombstone_record");
	let tq: usize = kani::any();
	kani::assume(tq < 10);
	let exp = if tq < 2 { 0xff } else { (head >> (8 * (tq as u32 - 2))) as u8 };
	assert!(unsafe { REC_DATA[0][tq] } == exp, "U14.clear_slot.links_previous_head");
	assert!(t.last_removed.load(Ordering::Relaxed) == 3, "U14.clear_slot.becomes_head");
	assert!(t.filled.load(Ordering::Relaxed) == filled, "U14.clear_slot.fill_mark_unchanged");
	assert!(t.dirty_header.load(Ordering::Relaxed), "U14.clear_slot.header_marked_dirty");
	// header record
	assert!(ok(t.complete_plan(&mut w)).is_some());
	assert!(unsafe { REC_N } == 2 && unsafe { REC_IDX[1] } == 0 && unsafe { REC_LEN[1] } == 16, "U14.complete_plan.header_record_when_dirty");
	let mut hb = [0u8; 16];
	hb.copy_from_slice(unsafe { &REC_DATA[1][..16] });
	let h = Header(hb);
	assert!(h.last_removed() == 3 && h.filled() == filled, "U14.complete_plan.header_content");
	assert!(!t.dirty_header.load(Ordering::Relaxed), "U14.complete_plan.clears_dirty");
	assert!(ok(t.complete_plan(&mut w)).is_some());
	assert!(unsafe { REC_N } == 2, "U14.complete_plan.no_record_when_clean");
	// LIFO: the freed slot is handed out first and the previous head is restored
	let r = ok(t.next_free(&mut w));
	assert!(r == Some(3), "U14.next_free.pops_last_freed_slot");
	assert!(t.last_removed.load(Ordering::Relaxed) == head, "U14.next_free.restores_previous_head");
	assert!(t.filled.load(Ordering::Relaxed) == filled, "U14.next_free.pop_does_not_grow");
	assert!(t.dirty_header.load(Ordering::Relaxed), "U14.next_free.pop_marks_header_dirty");
	kani::cover!(head != 0, "non-empty list");
	kani::cover!(head == 0, "empty list");
}

fn b_u14_next_free_grow_and_reject() {
	ghost_reset();
	let filled: u64 = kani::any();
	kani::assume(filled >= 1 && filled < u64::MAX);
	let t = mk_table(48, false, false, filled, 0);
	let overlays = RwLock::new(LogOverlays::with_columns(0));
	let mut w = LogWriter::new(&overlays, 9);
	let r = ok(t.next_free(&mut w));
	assert!(r == Some(filled), "U14.next_free.empty_list_takes_fill_mark");
	assert!(t.filled.load(Ordering::Relaxed) == filled + 1, "U14.next_free.fill_mark_advanced_by_one");
	assert!(t.last_removed.load(Ordering::Relaxed) == 0);
	assert!(t.dirty_header.load(Ordering::Relaxed), "U14.next_free.grow_marks_header_dirty");
	// a free-list link at or beyond the fill mark is rejected, nothing is handed out
	ghost_reset();
	let bad: u64 = kani::any();
	let t2 = mk_table(48, false, false, 5, 2);
	kani::assume(bad >= 5);
	view_put(2, tombstone_entry(bad), 10);
	let r2 = ok(t2.next_free(&mut w));
	assert!(r2.is_none(), "U14.next_free.rejects_out_of_range_link");
	assert!(t2.last_removed.load(Ordering::Relaxed) == 2 && t2.filled.load(Ordering::Relaxed) == 5, "U14.next_free.rejected_link_changes_nothing");
}

fn b_u14_remove_chain() {
	// removing a 3-part chain tombstones every part, head first, each linked in front of the previous head
	ghost_reset();
	let es = 48usize;
	let mut e0: [u8; VES] = kani::any();
	let mut e1: [u8; VES] = kani::any();
	let mut e2: [u8; VES] = kani::any();
	e0[0] = 0xfd;
	e0[1] = 0xff;
	put_u64(&mut e0, 2, 1);
	e1[0] = 0xfe;
	e1[1] = 0xff;
	put_u64(&mut e1, 2, 2);
	e2[0] = 9;
	e2[1] = 0;
	view_put(3, e0, es);
	view_put(1, e1, es);
	view_put(2, e2, 11);
	let t = mk_table(es as u16, true, false, 5, 4);
	let overlays = RwLock::new(LogOverlays::with_columns(0));
	let mut w = LogWriter::new(&overlays, 9);
	assert!(ok(t.write_remove_plan(3, &mut w)).is_some(), "U14.remove_chain.no_error");
	assert!(unsafe { REC_N } == 3, "U14.remove_chain.every_part_freed_once");
	let order: [u64; 3] = [3, 1, 2];
	let prev: [u64; 3] = [4, 3, 1];
	let s: usize = kani::any();
	kani::assume(s < 3);
	assert!(unsafe { REC_IDX[s] } == order[s] && unsafe { REC_LEN[s] } == 10, "U14.remove_chain.parts_in_chain_order");
	let tq: usize = kani::any();
	kani::assume(tq < 10);
	let exp = if tq < 2 { 0xff } else { (prev[s] >> (8 * (tq as u32 - 2))) as u8 };
	assert!(unsafe { REC_DATA[s][tq] } == exp, "U14.remove_chain.free_list_links");
	assert!(t.last_removed.load(Ordering::Relaxed) == 2, "U14.remove_chain.head_is_last_part");
}


// ================================================================== U14b: in-memory mirror of the free list (multitree columns)
pub(crate) fn stub_read_at(_f: &crate::file::TableFile, buf: &mut [u8], offset: u64) -> Result<()> {
	// contract of TableFile::read_at: plain byte copy from the file; the file content is the ghost view (48-byte slots)
	unsafe {
		let i = (offset / 48) as usize;
		assert!(i < NSLOT && VIEW_PRESENT[i], "verif: read of a slot the harness did not provide");
		let len = if buf.len() < VIEW_LEN[i] { buf.len() } else { VIEW_LEN[i] };
		buf[0..len].copy_from_slice(&slot(i)[0..len]);
	}
	Ok(())
}
fn b_u14_free_entries_mirror() {
	// on-disk free list 3 -> 1 -> 4 -> end, fill mark 6
	ghost_reset();
	view_put(3, tombstone_entry(1), 10);
	view_put(1, tombstone_entry(4), 10);
	view_put(4, tombstone_entry(0), 10);
	let mut t = mk_table(48, false, false, 6, 3);
	t.needs_free_entries = true;
	assert!(ok(t.init_table_data()).is_some(), "U14.init_table_data.no_error");
	{
		let fe = t.free_entries.as_ref().expect("free entries built").read();
		// the stack mirrors the list with the head on top: popping it yields the slots in list order
		assert!(fe.stack.len() == 3, "U14.init_table_data.every_free_slot_once");
		assert!(fe.stack[2] == 3 && fe.stack[1] == 1 && fe.stack[0] == 4, "U14.init_table_data.stack_top_is_list_head_in_list_order");
	}
	// claiming hands out the list head first, then follows the list, then extends the fill mark
	let r = ok(t.claim_entries(4));
	match r {
		Some(v) => {
			assert!(v.len() == 4 && v[0] == 3 && v[1] == 1 && v[2] == 4 && v[3] == 6, "U14.claim_entries.free_list_order_then_fill_mark");
		},
		None => assert!(false, "U14.claim_entries.no_error"),
	}
	assert!(t.last_removed.load(Ordering::Relaxed) == 0 && t.filled.load(Ordering::Relaxed) == 7, "U14.claim_entries.head_and_fill_mark_updated");
	assert!(t.dirty_header.load(Ordering::Relaxed), "U14.claim_entries.header_marked_dirty");
	std::mem::forget(t);
}
fn b_u14_free_entries_partial_claim() {
	ghost_reset();
	view_put(3, tombstone_entry(1), 10);
	view_put(1, tombstone_entry(0), 10);
	let mut t = mk_table(48, false, false, 6, 3);
	t.needs_free_entries = true;
	assert!(ok(t.init_table_data()).is_some());
	let r = ok(t.claim_entries(1));
	assert!(matches!(&r, Some(v) if v.len() == 1 && v[0] == 3), "U14.claim_entries.takes_list_head");
	// the in-memory head now equals the link stored in the claimed slot (what the on-disk list says)
	assert!(t.last_removed.load(Ordering::Relaxed) == 1, "U14.claim_entries.new_head_is_the_link_of_the_claimed_slot");
	assert!(t.filled.load(Ordering::Relaxed) == 6);
	// a slot freed afterwards goes on top of both mirrors
	let overlays: &'static RwLock<LogOverlays> = Box::leak(Box::new(RwLock::new(LogOverlays::with_columns(0))));
	let w: &'static mut LogWriter<'static> = Box::leak(Box::new(LogWriter::new(overlays, 9)));
	assert!(ok(t.clear_slot(5, &mut *w)).is_some());
	{
		let fe = t.free_entries.as_ref().unwrap().read();
		assert!(fe.stack.len() == 2 && fe.stack[1] == 5 && fe.stack[0] == 1, "U14.clear_slot.mirror_pushes_freed_slot");
	}
	assert!(t.last_removed.load(Ordering::Relaxed) == 5);
	std::mem::forget(r);
	std::mem::forget(t);
}

// ================================================================== U9 (value table): validation vs application of log records
pub(crate) static mut WR_N: usize = 0;
pub(crate) static mut WR_OFF: u64 = 0;
pub(crate) static mut WR_LEN: usize = 0;
pub(crate) fn stub_write_at(_f: &crate::file::TableFile, buf: &[u8], offset: u64) -> Result<()> {
	unsafe {
		WR_N += 1;
		WR_OFF = offset;
		WR_LEN = buf.len();
	}
	Ok(())
}
macro_rules! reader_harness {
	($(#[$m:meta])* $name:ident, $body:expr) => {
		#[kani::proof]
		$(#[$m])*
		#[kani::stub(crate::log::LogReader::read, crate::log::verif_log::stub_read)]
		#[kani::stub(crate::file::TableFile::write_at, stub_write_at)]
		#[kani::stub(crc32fast::Hasher::new, crate::verif_stubs::crc_hasher_new)]
		#[kani::stub(parking_lot::RawRwLock::lock_shared_slow, crate::verif_stubs::lock_shared_slow)]
		#[kani::stub(parking_lot::RawRwLock::unlock_shared_slow, crate::verif_stubs::unlock_shared_slow)]
		#[kani::stub(parking_lot::RawRwLock::lock_exclusive_slow, crate::verif_stubs::lock_exclusive_slow)]
		#[kani::stub(parking_lot::RawRwLock::unlock_exclusive_slow, crate::verif_stubs::unlock_exclusive_slow)]
		#[kani::stub(std::fmt::format, crate::verif_stubs::fmt_format)]
		fn $name() {
			$body
		}
	};
}

fn u9_value_validate(es: u16, multipart: bool) {
	use crate::log::verif_log as vl;
	let fail_at: usize = kani::any();
	vl::reader_reset([0u8; 8], fail_at);
	let t = mk_table(es, multipart, kani::any(), 5, 0);
	let index: u64 = kani::any();
	let mut r = vl::mk_reader();
	// obligation 1: validation returns (Ok or Err) for whatever bytes the record holds (the entry buffer is arbitrary
	// memory) -- a panic / out-of-bounds slice fails the proof
	let v = ok(t.validate_plan(index, &mut r));
	let (calls_v, bytes_v, maxlen_v) = vl::reader_stats();
	if v.is_some() {
		assert!(calls_v <= fail_at, "U9.value.ok_only_if_every_read_succeeded");
		if index == 0 {
			assert!(calls_v == 1 && bytes_v == 16, "U9.value.header_record_is_16_bytes");
		} else {
			assert!(calls_v == 2, "U9.value.size_word_then_payload");
			// obligation 2: a record accepted by validation fits its slot (the apply pass writes what it reads, U9.value.enact_*)
			assert!(bytes_v <= es as u64, "U9.value.validated_record_fits_slot");
			assert!(bytes_v >= 2, "U9.value.size_word_always_consumed");
			// the record kind is decided exactly as the apply pass decides it (enact_plan: tombstone / multipart-table
			// chain part / sized entry), so both passes consume the same bytes
			let head = vl::reader_seen();
			let sz = (head[0] as u64) | (((head[1] & 0x7f) as u64) << 8);
			let tomb = head[0] == 0xff && head[1] == 0xff;
			let multi = multipart && ((head[0] == 0xfe && head[1] == 0xff) || (head[0] == 0xfd && (head[1] == 0xff || head[1] == 0x7f)));
			assert!(bytes_v == if tomb { 10 } else if multi { es as u64 } else { 2 + sz }, "U9.value.validate_parses_record_kind_as_enact_does");
		}
	}
	kani::cover!(v.is_some() && index != 0 && bytes_v == 10, "tombstone-sized record accepted");
	kani::cover!(v.is_some() && index != 0 && bytes_v == es as u64, "slot-filling record accepted");
	kani::cover!(v.is_none() && fail_at > 8, "record rejected by validation");
	std::mem::forget(r);
	std::mem::forget(t);
}
fn u9_value_enact(es: u16, multipart: bool) {
	use crate::log::verif_log as vl;
	vl::reader_reset([0u8; 8], usize::MAX);
	let t = mk_table(es, multipart, kani::any(), 5, 0);
	t.file.capacity.store(u64::MAX, Ordering::Relaxed);
	let index: u64 = kani::any();
	kani::assume(index < (1u64 << 47));
	let mut r = vl::mk_reader();
	unsafe {
		WR_N = 0;
	}
	// the apply pass, on a record whose size word passes validation's bound (otherwise it may panic: that is what
	// validation is for), reads a record and writes exactly the bytes it read at the slot's offset
	let e = ok(t.enact_plan(index, &mut r));
	let (calls_e, bytes_e, _m) = vl::reader_stats();
	let (n, off, len) = unsafe { (WR_N, WR_OFF, WR_LEN) };
	if e.is_some() {
		assert!(n == 1, "U9.value.enact_exactly_one_write");
		assert!(len as u64 == bytes_e, "U9.value.enact_writes_exactly_what_it_read");
		assert!(off == index * es as u64, "U9.value.enact_write_at_slot_offset");
		assert!((index == 0) == (calls_e == 1), "U9.value.enact_same_read_pattern_as_validate");
	}
	kani::cover!(e.is_some() && index != 0, "record applied");
	std::mem::forget(r);
	std::mem::forget(t);
}
reader_harness!(u9_value_validate_fixed32, u9_value_validate(32, false));
reader_harness!(u9_value_validate_fixed4096, u9_value_validate(4096, false));
reader_harness!(u9_value_validate_fixed_max, u9_value_validate(MAX_ENTRY_SIZE as u16, false));
reader_harness!(u9_value_validate_multipart, u9_value_validate(MULTIPART_ENTRY_SIZE, true));
reader_harness!(u9_value_enact_fixed32, u9_value_enact(32, false));
reader_harness!(u9_value_enact_multipart, u9_value_enact(MULTIPART_ENTRY_SIZE, true));
reader_harness!(canary_u9_value, {
	use crate::log::verif_log as vl;
	vl::reader_reset(kani::any(), kani::any());
	let t = mk_table(32, false, false, 5, 0);
	let mut r = vl::mk_reader();
	let v = ok(t.validate_plan(kani::any(), &mut r));
	assert!(v.is_none(), "CANARY");
	std::mem::forget(r);
	std::mem::forget(t);
});

/*@@GENERATED:table@@*/
