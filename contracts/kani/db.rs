// Appended to /repo/src/db.rs of the scratch copy (child module: sees DbInner's private fields).
// Unit U21: the record-sequence gate of log replay (DbInner::enact_logs in validation mode).
#![allow(dead_code, unused_variables, unused_imports, static_mut_refs, unused_mut)]
use super::*;
use crate::log::{LogAction, LogReader};

fn ok<T>(r: Result<T>) -> Option<T> {
	match r {
		Ok(v) => Some(v),
		Err(e) => {
			std::mem::forget(e);
			None
		},
	}
}

pub(crate) static mut RID: u64 = 0;
pub(crate) static mut NEXT_N: usize = 0;
pub(crate) static mut RESET_N: usize = 0;
pub(crate) static mut CLEAR_N: usize = 0;
pub(crate) static mut END_READ_N: usize = 0;
pub(crate) static mut END_READ_ID: u64 = 0;
// Log::read_next by contract: the next record of the replay queue, positioned after its BEGIN marker
pub(crate) fn stub_read_next(_l: &Log, _validate: bool) -> Result<Option<LogReader<'_>>> {
	Ok(Some(crate::log::verif_log::mk_reader_with_id(unsafe { RID })))
}
// an empty record: the next action is END_RECORD with a good checksum
pub(crate) fn stub_next<'a>(_r: &mut LogReader<'a>) -> Result<LogAction>
where
	'a: 'a,
{
	unsafe {
		NEXT_N += 1;
	}
	Ok(LogAction::EndRecord)
}
pub(crate) fn stub_reset<'a>(_r: &mut LogReader<'a>) -> Result<()>
where
	'a: 'a,
{
	unsafe {
		RESET_N += 1;
	}
	Ok(())
}
pub(crate) fn stub_clear_replay_logs(_l: &Log) {
	unsafe {
		CLEAR_N += 1;
	}
}
pub(crate) fn stub_end_read(_l: &Log, cleared: crate::log::Cleared, record_id: u64) {
	unsafe {
		END_READ_N += 1;
		END_READ_ID = record_id;
	}
	std::mem::forget(cleared);
}

#[kani::proof]
#[kani::unwind(4)]
#[kani::stub(crate::log::Log::read_next, stub_read_next)]
#[kani::stub(crate::log::LogReader::next, stub_next)]
#[kani::stub(crate::log::LogReader::reset, stub_reset)]
#[kani::stub(crate::log::Log::clear_replay_logs, stub_clear_replay_logs)]
#[kani::stub(crate::log::Log::end_read, stub_end_read)]
#[kani::stub(crc32fast::Hasher::new, crate::verif_stubs::crc_hasher_new)]
#[kani::stub(std::hash::RandomState::new, crate::verif_stubs::random_state_new)]
#[kani::stub(parking_lot::RawRwLock::lock_shared_slow, crate::verif_stubs::lock_shared_slow)]
#[kani::stub(parking_lot::RawRwLock::unlock_shared_slow, crate::verif_stubs::unlock_shared_slow)]
#[kani::stub(parking_lot::RawRwLock::lock_exclusive_slow, crate::verif_stubs::lock_exclusive_slow)]
#[kani::stub(parking_lot::RawRwLock::unlock_exclusive_slow, crate::verif_stubs::unlock_exclusive_slow)]
#[kani::stub(parking_lot::RawRwLock::lock_upgradable_slow, crate::verif_stubs::lock_upgradable_slow)]
#[kani::stub(parking_lot::RawRwLock::unlock_upgradable_slow, crate::verif_stubs::unlock_upgradable_slow)]
#[kani::stub(parking_lot::RawRwLock::upgrade_slow, crate::verif_stubs::upgrade_slow)]
#[kani::stub(parking_lot::RawRwLock::downgrade_slow, crate::verif_stubs::downgrade_slow)]
#[kani::stub(parking_lot::RawRwLock::downgrade_to_upgradable_slow, crate::verif_stubs::downgrade_to_upgradable_slow)]
#[kani::stub(parking_lot::RawRwLock::try_lock_shared_slow, crate::verif_stubs::try_lock_shared_slow)]
#[kani::stub(parking_lot::RawRwLock::try_lock_upgradable_slow, crate::verif_stubs::try_lock_upgradable_slow)]
#[kani::stub(parking_lot::RawRwLock::try_upgrade_slow, crate::verif_stubs::try_upgrade_slow)]
#[kani::stub(parking_lot::RawMutex::bump_slow, crate::verif_stubs::mutex_bump_slow)]
#[kani::stub(parking_lot::RawMutex::lock_slow, crate::verif_stubs::mutex_lock_slow)]
#[kani::stub(parking_lot::RawMutex::unlock_slow, crate::verif_stubs::mutex_unlock_slow)]
#[kani::stub(parking_lot::Condvar::notify_one_slow, crate::verif_stubs::condvar_notify_one_slow)]
#[kani::stub(parking_lot::Condvar::notify_all_slow, crate::verif_stubs::condvar_notify_all_slow)]
#[kani::stub(parking_lot::Condvar::wait_until_internal, crate::verif_stubs::condvar_wait_until_internal)]
#[kani::stub(std::fmt::format, crate::verif_stubs::fmt_format)]
fn u21_replay_applies_only_the_next_record_in_sequence() {
	let last: u64 = kani::any();
	kani::assume(last < u64::MAX);
	let rid: u64 = kani::any();
	unsafe {
		RID = rid;
		NEXT_N = 0;
		RESET_N = 0;
		CLEAR_N = 0;
		END_READ_N = 0;
	}
	let db = std::mem::ManuallyDrop::new(DbInner {
		columns: Vec::new(),
		options: Options {
			path: std::path::PathBuf::new(),
			columns: Vec::new(),
			sync_wal: true,
			sync_data: true,
			stats: false,
			salt: None,
			compression_threshold: HashMap::new(),
		},
		shutdown: AtomicBool::new(false),
		log: crate::log::verif_log::mk_log(),
		commit_queue: Mutex::new(CommitQueue { record_id: 0, bytes: 0, commits: VecDeque::new() }),
		commit_queue_full_cv: Condvar::new(),
		log_worker_wait: WaitCondvar::new(),
		commit_worker_wait: Arc::new(WaitCondvar::new()),
		commit_overlay: RwLock::new(Vec::new()),
		trees: RwLock::new(HashMap::new()),
		log_queue_wait: WaitCondvar::new(),
		flush_worker_wait: Arc::new(WaitCondvar::new()),
		cleanup_worker_wait: WaitCondvar::new(),
		cleanup_queue_wait: WaitCondvar::new(),
		iteration_lock: Mutex::new(()),
		last_enacted: AtomicU64::new(last),
		next_reindex: AtomicU64::new(0),
		bg_err: Mutex::new(None),
		db_version: crate::options::CURRENT_VERSION,
		// never touched, never dropped
		lock_file: unsafe { std::mem::MaybeUninit::uninit().assume_init() },
	});
	let r = ok(db.enact_logs(true));
	let after = db.last_enacted.load(Ordering::SeqCst);
	if rid == last + 1 {
		// the next record in sequence (complete, checksum-valid) is applied
		assert!(r == Some(true), "U21.replay.next_record_in_sequence_is_applied");
		assert!(after == rid, "U21.replay.last_enacted_advances_to_the_applied_record");
		assert!(unsafe { END_READ_N } == 1 && unsafe { END_READ_ID } == rid, "U21.replay.applied_record_is_retired");
		assert!(unsafe { CLEAR_N } == 0, "U21.replay.queue_kept_after_a_good_record");
		assert!(unsafe { RESET_N } == 1, "U21.replay.record_is_validated_before_it_is_applied");
	} else {
		// any other record id -- older, repeated, or with a gap -- stops replay: nothing is applied, the rest is discarded
		assert!(r == Some(false), "U21.replay.out_of_sequence_record_stops_replay");
		assert!(after == last, "U21.replay.out_of_sequence_record_is_not_applied");
		assert!(unsafe { END_READ_N } == 0, "U21.replay.out_of_sequence_record_is_not_retired");
		assert!(unsafe { CLEAR_N } == 1, "U21.replay.remaining_logs_are_discarded");
	}
	kani::cover!(rid == last + 1, "in sequence");
	kani::cover!(rid > last + 1, "gap");
	kani::cover!(rid <= last, "stale");
}

// ================================================================== U24: the change-set sort key
// BTreeChangeSet::write_plan sorts the operations of a transaction with the (stable) `sort()`: operations on the same key
// keep their commit order only if they compare Equal whatever their kind.
fn any_op(kind: u8, key: u64) -> Operation<u64, u8> {
	match kind % 6 {
		0 => Operation::Set(key, kani::any()),
		1 => Operation::Dereference(key),
		2 => Operation::Reference(key),
		3 => Operation::InsertTree(key, NewNode { data: Vec::new(), children: Vec::new() }),
		4 => Operation::ReferenceTree(key),
		_ => Operation::DereferenceTree(key),
	}
}
#[kani::proof]
#[kani::unwind(3)]
fn u24_operations_are_ordered_by_key_only() {
	let (ka, kb): (u64, u64) = (kani::any(), kani::any());
	let a = any_op(kani::any(), ka);
	let b = any_op(kani::any(), kb);
	let c = a.cmp(&b);
	assert!(c == ka.cmp(&kb), "U24.operation_order.is_the_key_order");
	if ka == kb {
		assert!(c == std::cmp::Ordering::Equal, "U24.operation_order.same_key_operations_compare_equal_whatever_their_kind");
	}
	assert!(a.partial_cmp(&b) == Some(c), "U24.operation_order.partial_cmp_agrees");
	assert!(*a.key() == ka && *b.key() == kb, "U24.operation.key_accessor");
	std::mem::forget(a);
	std::mem::forget(b);
}
