// Appended to /repo/src/db.rs of the scratch copy (child module: sees DbInner's private fields).
// Unit U21: the record-sequence gate of log replay (DbInner::enact_logs in validation mode).
#![allow(dead_code, unused_variables, unused_imports, static_mut_refs, unused_mut)]
use super::*;
use crate::log::{LogAction, LogReader};

fn ok<T>(r: Result<T>) -> Option<T> {
	match r {
		Ok(v) => Some(v),
		Err(e) => {
			std::mem::forget(e);
			None
		},
	}
}

pub(crate) static mut RID: u64 = 0;
pub(crate) static mut NEXT_N: usize = 0;
pub(crate) static mut RESET_N: usize = 0;
pub(crate) static mut CLEAR_N: usize = 0;
pub(crate) static mut END_READ_N: usize = 0;
pub(crate) static mut END_READ_ID: u64 = 0;
// Log::read_next by contract: the next record of the replay queue, positioned after its BEGIN marker
pub(crate) fn stub_read_next(_l: &Log, _validate: bool) -> Result<Option<LogReader<'_>>> {
	Ok(Some(crate::log::verif_log::mk_reader_with_id(unsafe { RID })))
}
// an empty record: the next action is END_RECORD with a good checksum
pub(crate) fn stub_next<'a>(_r: &mut LogReader<'a>) -> Result<LogAction>
where
	'a: 'a,
{
	unsafe {
		NEXT_N += 1;
	}
	Ok(LogAction::EndRecord)
}
pub(crate) fn stub_reset<'a>(_r: &mut LogReader<'a>) -> Result<()>
where
	'a: 'a,
{
	unsafe {
		RESET_N += 1;
	}
	Ok(())
}
pub(crate) fn stub_clear_replay_logs(_l: &Log) {
	unsafe {
		CLEAR_N += 1;
	}
}
pub(crate) fn stub_end_read(_l: &Log, cleared: crate::log::Cleared, record_id: u64) {
	unsafe {
		END_READ_N += 1;
		END_READ_ID = record_id;
	}
	std::mem::forget(cleared);
}

#[kani::proof]
#[kani::unwind(4)]
#[kani::stub(crate::log::Log::read_next, stub_read_next)]
#[kani::stub(crate::log::LogReader::next, stub_next)]
#[kani::stub(crate::log::LogReader::reset, stub_reset)]
#[kani::stub(crate::log::Log::clear_replay_logs, stub_clear_replay_logs)]
#[kani::stub(crate::log::Log::end_read, stub_end_read)]
#[kani::stub(crc32fast::Hasher::new, crate::verif_stubs::crc_hasher_new)]
#[kani::stub(std::hash::RandomState::new, crate::verif_stubs::random_state_new)]
#[kani::stub(parking_lot::RawRwLock::lock_shared_slow, crate::verif_stubs::lock_shared_slow)]
#[kani::stub(parking_lot::RawRwLock::unlock_shared_slow, crate::verif_stubs::unlock_shared_slow)]
#[kani::stub(parking_lot::RawRwLock::lock_exclusive_slow, crate::verif_stubs::lock_exclusive_slow)]
#[kani::stub(parking_lot::RawRwLock::unlock_exclusive_slow, crate::verif_stubs::unlock_exclusive_slow)]
#[kani::stub(parking_lot::RawRwLock::lock_upgradable_slow, crate::verif_stubs::lock_upgradable_slow)]
#[kani::stub(parking_lot::RawRwLock::unlock_upgradable_slow, crate::verif_stubs::unlock_upgradable_slow)]
#[kani::stub(parking_lot::RawRwLock::upgrade_slow, crate::verif_stubs::upgrade_slow)]
#[kani::stub(parking_lot::RawRwLock::downgrade_slow, crate::verif_stubs::downgrade_slow)]
#[kani::stub(parking_lot::RawRwLock::downgrade_to_upgradable_slow, crate::verif_stubs::downgrade_to_upgradable_slow)]
#[kani::stub(parking_lot::RawRwLock::try_lock_shared_slow, crate::verif_stubs::try_lock_shared_slow)]
#[kani::stub(parking_lot::RawRwLock::try_lock_upgradable_slow, crate::verif_stubs::try_lock_upgradable_slow)]
#[kani::stub(parking_lot::RawRwLock::try_upgrade_slow, crate::verif_stubs::try_upgrade_slow)]
#[kani::stub(parking_lot::RawMutex::bump_slow, crate::verif_stubs::mutex_bump_slow)]
#[kani::stub(parking_lot::RawMutex::lock_slow, crate::verif_stubs::mutex_lock_slow)]
#[kani::stub(parking_lot::RawMutex::unlock_slow, crate::verif_stubs::mutex_unlock_slow)]
#[kani::stub(parking_lot::Condvar::notify_one_slow, crate::verif_stubs::condvar_notify_one_slow)]
#[kani::stub(parking_lot::Condvar::notify_all_slow, crate::verif_stubs::condvar_notify_all_slow)]
#[kani::stub(parking_lot::Condvar::wait_until_internal, crate::verif_stubs::condvar_wait_until_internal)]
#[kani::stub(std::fmt::format, crate::verif_stubs::fmt_format)]
fn u21_replay_applies_only_the_next_record_in_sequence() {
	let last: u64 = kani::any();
	kani::assume(last < u64::MAX);
	let rid: u64 = kani::any();
	unsafe {
		RID = rid;
		NEXT_N = 0;
		RESET_N = 0;
		CLEAR_N = 0;
		END_READ_N = 0;
	}
	let db = std::mem::ManuallyDrop::new(DbInner {
		columns: Vec::new(),
		options: Options {
			path: std::path::PathBuf::new(),
			columns: Vec::new(),
			sync_wal: true,
			sync_data: true,
			stats: false,
			salt: None,
			compression_threshold: HashMap::new(),
		},
		shutdown: AtomicBool::new(false),
		log: crate::log::verif_log::mk_log(),
		commit_queue: Mutex::new(CommitQueue { record_id: 0, bytes: 0, commits: VecDeque::new() }),
		commit_queue_full_cv: Condvar::new(),
		log_worker_wait: WaitCondvar::new(),
		commit_worker_wait: Arc::new(WaitCondvar::new()),
		commit_overlay: RwLock::new(Vec::new()),
		trees: RwLock::new(HashMap::new()),
		log_queue_wait: WaitCondvar::new(),
		flush_worker_wait: Arc::new(WaitCondvar::new()),
		cleanup_worker_wait: WaitCondvar::new(),
		cleanup_queue_wait: WaitCondvar::new(),
		iteration_lock: Mutex::new(()),
		last_enacted: AtomicU64::new(last),
		next_reindex: AtomicU64::new(0),
		bg_err: Mutex::new(None),
		db_version: crate::options::CURRENT_VERSION,
		// never touched, never dropped
		lock_file: unsafe { std::mem::MaybeUninit::uninit().assume_init() },
	});
	let r = ok(db.enact_logs(true));
	let after = db.last_enacted.load(Ordering::SeqCst);
	if rid == last + 1 {
		// the next record in sequence (complete, checksum-valid) is applied
		assert!(r == Some(true), "U21.replay.next_record_in_sequence_is_applied");
		assert!(after == rid, "U21.replay.last_enacted_advances_to_the_applied_record");
		assert!(unsafe { END_READ_N } == 1 && unsafe { END_READ_ID } == rid, "U21.replay.applied_record_is_retired");
		assert!(unsafe { CLEAR_N } == 0, "U21.replay.queue_kept_after_a_good_record");
		assert!(unsafe { RESET_N } == 1, "U21.replay.record_is_validated_before_it_is_applied");
	} else {
		// any other record id -- older, repeated, or with a gap -- stops replay: nothing is applied, the rest is discarded
		assert!(r == Some(false), "U21.replay.out_of_sequence_record_stops_replay");
		assert!(after == last, "U21.replay.out_of_sequence_record_is_not_applied");
		assert!(unsafe { END_READ_N } == 0, "U21.replay.out_of_sequence_record_is_not_retired");
		assert!(unsafe { CLEAR_N } == 1, "U21.replay.remaining_logs_are_discarded");
	}
	kani::cover!(rid == last + 1, "in sequence");
	kani::cover!(rid > last + 1, "gap");
	kani::cover!(rid <= last, "stale");
}

// ================================================================== U24: the change-set sort key
// BTreeChangeSet::write_plan sorts the operations of a transaction with the (stable) `sort()`: operations on the same key
// keep their commit order only if they compare Equal whatever their kind.
fn any_op(kind: u8, key: u64) -> Operation<u64, u8> {
	match kind % 6 {
		0 => Operation::Set(key, kani::any()),
		1 => Operation::Dereference(key),
		2 => Operation::Reference(key),
		3 => Operation::InsertTree(key, NewNode { data: Vec::new(), children: Vec::new() }),
		4 => Operation::ReferenceTree(key),
		_ => Operation::DereferenceTree(key),
	}
}
#[kani::proof]
#[kani::unwind(3)]
fn u24_operations_are_ordered_by_key_only() {
	let (ka, kb): (u64, u64) = (kani::any(), kani::any());
	let a = any_op(kani::any(), ka);
	let b = any_op(kani::any(), kb);
	let c = a.cmp(&b);
	assert!(c == ka.cmp(&kb), "U24.operation_order.is_the_key_order");
	if ka == kb {
		assert!(c == std::cmp::Ordering::Equal, "U24.operation_order.same_key_operations_compare_equal_whatever_their_kind");
	}
	assert!(a.partial_cmp(&b) == Some(c), "U24.operation_order.partial_cmp_agrees");
	assert!(*a.key() == ka && *b.key() == kb, "U24.operation.key_accessor");
	std::mem::forget(a);
	std::mem::forget(b);
}

// ================================================================== U30: point reads consult the commit overlay first, then the column
// (log overlay and tables). DbInner::{get, get_size} on a real DbInner with one hash column; the commit overlay's map lookup
// (CommitOverlay::get_ref) and HashColumn::{hash_key, get} are replaced by their contracts.
macro_rules! db_harness {
	($(#[$m:meta])* $name:ident, $body:expr) => {
		#[kani::proof]
		$(#[$m])*
		#[kani::stub(crate::column::HashColumn::hash_key, stub_hash_key)]
		#[kani::stub(crate::column::HashColumn::get, stub_column_get)]
		#[kani::stub(CommitOverlay::get_ref, stub_overlay_get_ref)]
		#[kani::stub(CommitOverlay::btree_get, stub_btree_get_unreachable)]
		#[kani::stub(crate::btree::BTreeTable::get, stub_btree_table_get_unreachable)]
		#[kani::stub(std::hash::RandomState::new, crate::verif_stubs::random_state_new)]
		#[kani::stub(parking_lot::RawRwLock::lock_shared_slow, crate::verif_stubs::lock_shared_slow)]
		#[kani::stub(parking_lot::RawRwLock::unlock_shared_slow, crate::verif_stubs::unlock_shared_slow)]
		#[kani::stub(parking_lot::RawRwLock::lock_exclusive_slow, crate::verif_stubs::lock_exclusive_slow)]
		#[kani::stub(parking_lot::RawRwLock::unlock_exclusive_slow, crate::verif_stubs::unlock_exclusive_slow)]
		#[kani::stub(parking_lot::RawRwLock::lock_upgradable_slow, crate::verif_stubs::lock_upgradable_slow)]
		#[kani::stub(parking_lot::RawRwLock::unlock_upgradable_slow, crate::verif_stubs::unlock_upgradable_slow)]
		#[kani::stub(parking_lot::RawRwLock::upgrade_slow, crate::verif_stubs::upgrade_slow)]
		#[kani::stub(parking_lot::RawRwLock::downgrade_slow, crate::verif_stubs::downgrade_slow)]
		#[kani::stub(parking_lot::RawRwLock::downgrade_to_upgradable_slow, crate::verif_stubs::downgrade_to_upgradable_slow)]
		#[kani::stub(parking_lot::RawRwLock::try_lock_shared_slow, crate::verif_stubs::try_lock_shared_slow)]
		#[kani::stub(parking_lot::RawRwLock::try_lock_upgradable_slow, crate::verif_stubs::try_lock_upgradable_slow)]
		#[kani::stub(parking_lot::RawRwLock::try_upgrade_slow, crate::verif_stubs::try_upgrade_slow)]
		#[kani::stub(parking_lot::RawMutex::bump_slow, crate::verif_stubs::mutex_bump_slow)]
		#[kani::stub(parking_lot::RawMutex::lock_slow, crate::verif_stubs::mutex_lock_slow)]
		#[kani::stub(parking_lot::RawMutex::unlock_slow, crate::verif_stubs::mutex_unlock_slow)]
		#[kani::stub(parking_lot::Condvar::notify_one_slow, crate::verif_stubs::condvar_notify_one_slow)]
		#[kani::stub(parking_lot::Condvar::notify_all_slow, crate::verif_stubs::condvar_notify_all_slow)]
		#[kani::stub(parking_lot::Condvar::wait_until_internal, crate::verif_stubs::condvar_wait_until_internal)]
		#[kani::stub(std::fmt::format, crate::verif_stubs::fmt_format)]
		fn $name() {
			$body
		}
	};
}

// the database of these harnesses has one *hash* column; the column vector lives on the heap, where CBMC's symbolic executor
// no longer sees the variant as a constant and would explore the btree branch of DbInner::get: its callees are stubbed
// with a failing assertion (so reaching them fails the proof, which the solver refutes)
pub(crate) fn stub_btree_get_unreachable<'a>(_o: &'a CommitOverlay, _key: &[u8]) -> Option<Option<&'a RcValue>> {
	assert!(false, "U30.btree_branch_not_reached_for_a_hash_column");
	None
}
pub(crate) fn stub_btree_table_get_unreachable<L: crate::log::LogQuery>(_key: &[u8], _log: &L, _values: crate::column::TablesRef) -> Result<Option<Vec<u8>>> {
	assert!(false, "U30.btree_branch_not_reached_for_a_hash_column");
	Ok(None)
}
pub(crate) static mut HK: Key = [0u8; 32];
pub(crate) static mut HK_N: usize = 0;
pub(crate) fn stub_hash_key(_c: &crate::column::HashColumn, _key: &[u8]) -> Key {
	unsafe {
		HK_N += 1;
		HK
	}
}
// commit overlay lookup by contract: 0 = the key has no queued write; 1 = its latest queued write is a removal;
// 2 = its latest queued write is a value (two bytes, arbitrary)
pub(crate) static mut OV_MODE: u8 = 0;
pub(crate) static mut OV_N: usize = 0;
pub(crate) static mut OV_KEY_OK: bool = true;
pub(crate) static mut OV_VAL: [u8; 2] = [0; 2];
pub(crate) fn stub_overlay_get_ref<'a>(_o: &'a CommitOverlay, key: &[u8]) -> Option<Option<&'a RcValue>> {
	unsafe {
		OV_N += 1;
		OV_KEY_OK = OV_KEY_OK && key.len() == 32 && key[0] == HK[0] && key[31] == HK[31];
		match OV_MODE {
			0 => None,
			1 => Some(None),
			_ => {
				let v: &'static RcValue = Box::leak(Box::new(RcValue::from(vec![OV_VAL[0], OV_VAL[1]])));
				Some(Some(v))
			},
		}
	}
}
// HashColumn::get by contract (U29 / U13): what the column (log overlay, then tables) holds for the hashed key
pub(crate) static mut CG_N: usize = 0;
pub(crate) static mut CG_HIT: bool = false;
pub(crate) static mut CG_KEY_OK: bool = true;
pub(crate) static mut CG_VAL: [u8; 3] = [0; 3];
pub(crate) fn stub_column_get<L: crate::log::LogQuery>(_c: &crate::column::HashColumn, key: &Key, _log: &L) -> Result<Option<(Value, u32)>> {
	unsafe {
		CG_N += 1;
		CG_KEY_OK = CG_KEY_OK && key[0] == HK[0] && key[31] == HK[31];
		if CG_HIT {
			Ok(Some((vec![CG_VAL[0], CG_VAL[1], CG_VAL[2]], 5)))
		} else {
			Ok(None)
		}
	}
}
fn mk_db_one_hash_column() -> std::mem::ManuallyDrop<DbInner> {
	unsafe {
		HK = kani::any();
		HK_N = 0;
		OV_MODE = kani::any();
		OV_N = 0;
		OV_KEY_OK = true;
		OV_VAL = kani::any();
		CG_N = 0;
		CG_HIT = kani::any();
		CG_KEY_OK = true;
		CG_VAL = kani::any();
	}
	std::mem::ManuallyDrop::new(DbInner {
		columns: vec![Column::Hash(crate::column::verif_column::mk_hash_column(16, false))],
		options: Options {
			path: std::path::PathBuf::new(),
			columns: vec![ColumnOptions::default()],
			sync_wal: true,
			sync_data: true,
			stats: false,
			salt: None,
			compression_threshold: HashMap::new(),
		},
		shutdown: AtomicBool::new(false),
		log: crate::log::verif_log::mk_log(),
		commit_queue: Mutex::new(CommitQueue { record_id: 0, bytes: 0, commits: VecDeque::new() }),
		commit_queue_full_cv: Condvar::new(),
		log_worker_wait: WaitCondvar::new(),
		commit_worker_wait: Arc::new(WaitCondvar::new()),
		commit_overlay: RwLock::new(vec![CommitOverlay::new()]),
		trees: RwLock::new(HashMap::new()),
		log_queue_wait: WaitCondvar::new(),
		flush_worker_wait: Arc::new(WaitCondvar::new()),
		cleanup_worker_wait: WaitCondvar::new(),
		cleanup_queue_wait: WaitCondvar::new(),
		iteration_lock: Mutex::new(()),
		last_enacted: AtomicU64::new(0),
		next_reindex: AtomicU64::new(0),
		bg_err: Mutex::new(None),
		db_version: crate::options::CURRENT_VERSION,
		lock_file: unsafe { std::mem::MaybeUninit::uninit().assume_init() },
	})
}
db_harness!(#[kani::unwind(5)] u30_get_consults_commit_overlay_then_column, {
	let db = mk_db_one_hash_column();
	let user_key: [u8; 4] = kani::any();
	let r = ok(db.get(0, &user_key, true));
	let (mode, hit) = unsafe { (OV_MODE, CG_HIT) };
	assert!(unsafe { HK_N } == 1 && unsafe { OV_KEY_OK } && unsafe { CG_KEY_OK }, "U30.get.looks_up_the_hashed_key_everywhere");
	match r {
		None => assert!(false, "U30.get.no_error"),
		Some(got) => {
			if mode == 1 {
				// the latest queued write is a removal: the key is absent, whatever the tables still hold
				assert!(got.is_none(), "U30.get.queued_removal_hides_stored_value");
			} else if mode >= 2 {
				// the latest queued write wins over whatever the tables still hold
				match &got {
					Some(v) => assert!(v.len() == 2 && v[0] == unsafe { OV_VAL[0] } && v[1] == unsafe { OV_VAL[1] }, "U30.get.queued_value_wins"),
					None => assert!(false, "U30.get.queued_value_wins"),
				}
			} else {
				match &got {
					Some(v) => assert!(hit && v.len() == 3 && v[0] == unsafe { CG_VAL[0] } && v[2] == unsafe { CG_VAL[2] }, "U30.get.overlay_miss_returns_the_column_value"),
					None => assert!(!hit, "U30.get.overlay_miss_absent_iff_column_absent"),
				}
			}
			std::mem::forget(got);
		},
	}
	kani::cover!(mode == 0 && hit, "reached");
});
db_harness!(#[kani::unwind(5)] u30_get_size_is_the_length_of_what_get_returns, {
	let db = mk_db_one_hash_column();
	let user_key: [u8; 4] = kani::any();
	let r = ok(db.get_size(0, &user_key));
	let (mode, hit) = unsafe { (OV_MODE, CG_HIT) };
	match r {
		None => assert!(false, "U30.get_size.no_error"),
		Some(got) => {
			let want = if mode == 1 { None } else if mode >= 2 { Some(2u32) } else if hit { Some(3u32) } else { None };
			assert!(got == want, "U30.get_size.equals_length_of_the_value_get_returns");
		},
	}
	kani::cover!(mode == 0 && hit, "reached");
});

// ================================================================== U31: table data is flushed before any log file is reclaimed
// DbInner::{clean_logs, clean_all_logs} with Column::flush, Log::num_dirty_logs and Log::clean_logs replaced by contracts.
pub(crate) static mut FL_N: usize = 0;
pub(crate) static mut FL_FAIL: bool = false;
pub(crate) static mut DIRTY: usize = 0;
pub(crate) static mut CL_N: usize = 0;
pub(crate) static mut CL_ARG: usize = 0;
pub(crate) static mut CL_FLUSHED_BEFORE: usize = 0;
pub(crate) fn stub_column_flush(_c: &Column) -> Result<()> {
	unsafe {
		if FL_FAIL {
			return Err(Error::Corruption(String::new()))
		}
		FL_N += 1;
		Ok(())
	}
}
// rely condition of the cleanup worker: while it flushes, the commit worker may finish further log files (they become
// dirty); their pages are not covered by the flush that is under way
pub(crate) static mut DIRTY_BEFORE_FLUSH: usize = 0;
pub(crate) fn stub_column_flush_concurrent(_c: &Column) -> Result<()> {
	unsafe {
		if FL_FAIL {
			return Err(Error::Corruption(String::new()))
		}
		if FL_N == 0 {
			DIRTY_BEFORE_FLUSH = DIRTY;
		}
		FL_N += 1;
		let grow: u8 = kani::any();
		DIRTY += grow as usize;
		Ok(())
	}
}
pub(crate) fn stub_num_dirty_logs(_l: &Log) -> usize {
	unsafe { DIRTY }
}
pub(crate) fn stub_log_clean_logs(_l: &Log, max_count: usize) -> Result<bool> {
	unsafe {
		CL_N += 1;
		CL_ARG = max_count;
		CL_FLUSHED_BEFORE = FL_N;
		Ok(max_count < DIRTY)
	}
}
fn u31_reset() {
	unsafe {
		FL_N = 0;
		FL_FAIL = kani::any();
		DIRTY = kani::any();
		CL_N = 0;
		CL_ARG = 0;
		CL_FLUSHED_BEFORE = 0;
	}
}
db_harness!(#[kani::unwind(5)]
	#[kani::stub(Column::flush, stub_column_flush_concurrent)]
	#[kani::stub(crate::log::Log::num_dirty_logs, stub_num_dirty_logs)]
	#[kani::stub(crate::log::Log::clean_logs, stub_log_clean_logs)]
	u31_data_flushed_before_logs_are_reclaimed, {
	let mut db = mk_db_one_hash_column();
	let sync_data: bool = kani::any();
	db.options.sync_data = sync_data;
	u31_reset();
	kani::assume(unsafe { DIRTY } < 1 << 40);
	let dirty = unsafe { DIRTY };
	let r = ok(db.clean_logs());
	let fail = unsafe { FL_FAIL };
	if unsafe { CL_N } > 0 && sync_data {
		// a log that became dirty while the flush was under way is not reclaimed by this call
		assert!(unsafe { CL_ARG } <= unsafe { DIRTY_BEFORE_FLUSH }, "U31.clean_logs.logs_that_became_dirty_during_the_flush_are_not_reclaimed");
	}
	let keep = if sync_data { 0 } else { KEEP_LOGS };
	if unsafe { CL_N } > 0 {
		if sync_data {
			// every column's tables were flushed (msync / fsync) before the first log file is truncated or reused
			assert!(unsafe { CL_FLUSHED_BEFORE } == 1, "U31.clean_logs.every_column_flushed_before_any_log_is_reclaimed");
		}
		assert!(dirty > keep && unsafe { CL_ARG } <= dirty - keep, "U31.clean_logs.reclaims_only_the_dirty_logs_beyond_the_kept_ones");
	}
	if sync_data && fail && dirty > keep {
		assert!(r.is_none() && unsafe { CL_N } == 0, "U31.clean_logs.a_failed_flush_reclaims_nothing");
	}
	if dirty <= keep {
		assert!(unsafe { CL_N } == 0, "U31.clean_logs.nothing_reclaimed_while_within_the_kept_logs");
	}
	kani::cover!(unsafe { CL_N } == 1 && sync_data, "reached");
});
db_harness!(#[kani::unwind(5)]
	#[kani::stub(Column::flush, stub_column_flush)]
	#[kani::stub(crate::log::Log::num_dirty_logs, stub_num_dirty_logs)]
	#[kani::stub(crate::log::Log::clean_logs, stub_log_clean_logs)]
	u31_clean_all_logs_flushes_first, {
	let db = mk_db_one_hash_column();
	u31_reset();
	let r = ok(db.clean_all_logs());
	let (dirty, fail) = unsafe { (DIRTY, FL_FAIL) };
	if fail {
		assert!(r.is_none() && unsafe { CL_N } == 0, "U31.clean_all_logs.a_failed_flush_reclaims_nothing");
	} else {
		assert!(r.is_some() && unsafe { CL_N } >= 1 && unsafe { CL_FLUSHED_BEFORE } == 1, "U31.clean_all_logs.every_column_flushed_before_any_log_is_reclaimed");
		assert!(unsafe { CL_ARG } >= dirty, "U31.clean_all_logs.reclaims_every_dirty_log");
	}
	kani::cover!(!fail, "reached");
});

// ================================================================== U33: shutdown drains every stage of the pipeline in dependency order
// DbInner::kill_logs with the stage functions replaced by their contracts over ghost counters:
//   Q queued commits --process_commits--> A records in the appending log --flush_logs--> R records readable --enact_logs--> applied
pub(crate) static mut SQ: u8 = 0;
pub(crate) static mut SA: u8 = 0;
pub(crate) static mut SR: u8 = 0;
pub(crate) static mut SE: u8 = 0;
pub(crate) static mut CLEAN_ALL_N: usize = 0;
pub(crate) static mut CLEAN_ALL_WITH_PENDING: bool = false;
pub(crate) static mut KILL_N: usize = 0;
pub(crate) static mut KILL_BEFORE_CLEAN: bool = false;
pub(crate) static mut BGERR_CLEAN_N: usize = 0;
pub(crate) fn stub_process_commits(_d: &DbInner, _db: &Arc<DbInner>) -> Result<bool> {
	unsafe {
		if SQ > 0 {
			SQ -= 1;
			SA += 1;
			Ok(true)
		} else {
			Ok(false)
		}
	}
}
pub(crate) fn stub_flush_logs(_d: &DbInner, _min: u64) -> Result<bool> {
	unsafe {
		if SA > 0 {
			SR += SA;
			SA = 0;
			Ok(true)
		} else {
			Ok(false)
		}
	}
}
pub(crate) fn stub_enact_logs(_d: &DbInner, _validation: bool) -> Result<bool> {
	unsafe {
		if SR > 0 {
			SR -= 1;
			SE += 1;
			Ok(true)
		} else {
			Ok(false)
		}
	}
}
pub(crate) fn stub_clean_all_logs(_d: &DbInner) -> Result<()> {
	unsafe {
		CLEAN_ALL_N += 1;
		if SQ > 0 || SA > 0 || SR > 0 {
			CLEAN_ALL_WITH_PENDING = true;
		}
		Ok(())
	}
}
pub(crate) fn stub_log_kill_logs(_l: &Log) -> Result<()> {
	unsafe {
		KILL_N += 1;
		if CLEAN_ALL_N == 0 {
			KILL_BEFORE_CLEAN = true;
		}
		Ok(())
	}
}
pub(crate) fn stub_log_clean_logs_bgerr(_l: &Log, _max: usize) -> Result<bool> {
	unsafe {
		BGERR_CLEAN_N += 1;
		Ok(false)
	}
}
db_harness!(#[kani::unwind(9)]
	#[kani::stub(DbInner::process_commits, stub_process_commits)]
	#[kani::stub(DbInner::flush_logs, stub_flush_logs)]
	#[kani::stub(DbInner::enact_logs, stub_enact_logs)]
	#[kani::stub(DbInner::clean_all_logs, stub_clean_all_logs)]
	#[kani::stub(crate::log::Log::kill_logs, stub_log_kill_logs)]
	#[kani::stub(crate::log::Log::num_dirty_logs, stub_num_dirty_logs)]
	#[kani::stub(crate::log::Log::clean_logs, stub_log_clean_logs_bgerr)]
	u33_shutdown_drains_every_stage_in_order, {
	let db = mk_db_one_hash_column();
	let (q, a, r0): (u8, u8, u8) = (kani::any(), kani::any(), kani::any());
	kani::assume(q <= 2 && a <= 2 && r0 <= 2);
	unsafe {
		SQ = q;
		SA = a;
		SR = r0;
		SE = 0;
		CLEAN_ALL_N = 0;
		CLEAN_ALL_WITH_PENDING = false;
		KILL_N = 0;
		KILL_BEFORE_CLEAN = false;
		BGERR_CLEAN_N = 0;
		DIRTY = 0;
	}
	// kill_logs takes the Arc only to hand it to process_commits (stubbed): any Arc<DbInner> will do
	let arc: &'static Arc<DbInner> = Box::leak(Box::new(Arc::new(std::mem::ManuallyDrop::into_inner(mk_db_one_hash_column_plain()))));
	let r = ok(db.kill_logs(arc));
	assert!(r.is_some(), "U33.kill_logs.no_error");
	// every accepted commit -- queued, logged but unflushed, flushed but unapplied -- has been applied to the tables
	assert!(unsafe { SE } == q + a + r0, "U33.kill_logs.every_accepted_commit_is_applied");
	assert!(unsafe { SQ == 0 && SA == 0 && SR == 0 }, "U33.kill_logs.no_stage_left_with_work");
	// and only then are data flushed / logs reclaimed, and only then are the log files removed
	assert!(unsafe { CLEAN_ALL_N } == 1 && !unsafe { CLEAN_ALL_WITH_PENDING }, "U33.kill_logs.logs_reclaimed_only_after_everything_is_applied");
	assert!(unsafe { KILL_N } == 1 && !unsafe { KILL_BEFORE_CLEAN }, "U33.kill_logs.log_files_removed_only_after_the_final_flush");
	kani::cover!(q == 2 && a == 1 && r0 == 2, "reached");
});
fn mk_db_one_hash_column_plain() -> std::mem::ManuallyDrop<DbInner> {
	mk_db_one_hash_column()
}

// ================================================================== U34: a background failure stops the writer: it is recorded once, later
// commits are refused without leaving a trace, and shutdown does not apply anything further
db_harness!(#[kani::unwind(5)] u34_first_background_error_is_kept_and_stops_the_workers, {
	let db = mk_db_one_hash_column();
	let first_is_err: bool = kani::any();
	let r1: Result<()> = if first_is_err { Err(Error::Corruption(String::new())) } else { Ok(()) };
	db.store_err(r1);
	if first_is_err {
		assert!(db.bg_err.lock().is_some(), "U34.store_err.failure_is_recorded");
		assert!(db.shutdown.load(Ordering::SeqCst), "U34.store_err.failure_stops_the_workers");
	} else {
		assert!(db.bg_err.lock().is_none() && !db.shutdown.load(Ordering::SeqCst), "U34.store_err.success_changes_nothing");
	}
	// a second failure does not replace the first (the first error is the one reported to clients)
	let first: Option<*const Error> = db.bg_err.lock().as_ref().map(|a| Arc::as_ptr(a));
	db.store_err(Err(Error::Locked(std::io::Error::from_raw_os_error(11))));
	let second: Option<*const Error> = db.bg_err.lock().as_ref().map(|a| Arc::as_ptr(a));
	assert!(second.is_some(), "U34.store_err.failure_is_recorded");
	if first_is_err {
		assert!(first == second, "U34.store_err.first_failure_is_kept");
	}
	kani::cover!(first_is_err, "reached");
});
db_harness!(#[kani::unwind(5)] u34_commit_refused_in_background_error_state_leaves_no_trace, {
	let db = mk_db_one_hash_column();
	let failed: bool = kani::any();
	if failed {
		*db.bg_err.lock() = Some(Arc::new(Error::Corruption(String::new())));
	}
	let rid0: u64 = kani::any();
	kani::assume(rid0 < u64::MAX);
	db.commit_queue.lock().record_id = rid0;
	let r = db.commit_raw(CommitChangeSet::default());
	let (rid1, n1, b1) = {
		let q = db.commit_queue.lock();
		(q.record_id, q.commits.len(), q.bytes)
	};
	match r {
		Ok(()) => {
			assert!(!failed, "U34.commit_raw.refused_in_background_error_state");
			assert!(rid1 == rid0 + 1 && n1 == 1, "U34.commit_raw.accepted_commit_takes_the_next_id_and_is_queued");
		},
		Err(e) => {
			assert!(failed, "U34.commit_raw.empty_commit_is_accepted_when_healthy");
			assert!(matches!(e, Error::Background(_)), "U34.commit_raw.reports_the_background_error");
			// nothing of the refused transaction remains: no commit id taken, nothing queued
			assert!(rid1 == rid0 && n1 == 0 && b1 == 0, "U34.commit_raw.refused_commit_takes_no_id_and_is_not_queued");
			std::mem::forget(e);
		},
	}
	kani::cover!(failed, "reached");
});
db_harness!(#[kani::unwind(9)]
	#[kani::stub(DbInner::process_commits, stub_process_commits)]
	#[kani::stub(DbInner::flush_logs, stub_flush_logs)]
	#[kani::stub(DbInner::enact_logs, stub_enact_logs)]
	#[kani::stub(DbInner::clean_all_logs, stub_clean_all_logs)]
	#[kani::stub(crate::log::Log::kill_logs, stub_log_kill_logs)]
	#[kani::stub(crate::log::Log::num_dirty_logs, stub_num_dirty_logs)]
	#[kani::stub(crate::log::Log::clean_logs, stub_log_clean_logs_bgerr)]
	u34_shutdown_after_background_error_applies_nothing, {
	let db = mk_db_one_hash_column();
	*db.bg_err.lock() = Some(Arc::new(Error::Corruption(String::new())));
	let (q, a, r0): (u8, u8, u8) = (kani::any(), kani::any(), kani::any());
	kani::assume(q <= 2 && a <= 2 && r0 <= 2);
	unsafe {
		SQ = q;
		SA = a;
		SR = r0;
		SE = 0;
		CLEAN_ALL_N = 0;
		CLEAN_ALL_WITH_PENDING = false;
		KILL_N = 0;
		KILL_BEFORE_CLEAN = false;
		BGERR_CLEAN_N = 0;
		DIRTY = kani::any();
	}
	let arc: &'static Arc<DbInner> = Box::leak(Box::new(Arc::new(std::mem::ManuallyDrop::into_inner(mk_db_one_hash_column_plain()))));
	let r = ok(db.kill_logs(arc));
	assert!(r.is_some(), "U34.kill_logs.no_error");
	// the log reader may be in an inconsistent state: no record is applied, no queued commit is logged
	assert!(unsafe { SE } == 0 && unsafe { SQ } == q && unsafe { SA } == a && unsafe { SR } == r0, "U34.kill_logs.nothing_is_applied_after_a_background_error");
	assert!(unsafe { CLEAN_ALL_N } == 0 && unsafe { KILL_N } == 0, "U34.kill_logs.log_files_are_kept_for_recovery");
	kani::cover!(q == 1, "reached");
});

// ================================================================== U30 (btree columns): the same read order for a btree-indexed column
macro_rules! db_bt_harness {
	($(#[$m:meta])* $name:ident, $body:expr) => {
		#[kani::proof]
		$(#[$m])*
		#[kani::stub(crate::column::HashColumn::hash_key, stub_hash_key)]
		#[kani::stub(crate::column::HashColumn::get, stub_column_get_unreachable)]
		#[kani::stub(CommitOverlay::get_ref, stub_overlay_get_ref_unreachable)]
		#[kani::stub(CommitOverlay::btree_get, stub_overlay_btree_get)]
		#[kani::stub(crate::btree::BTreeTable::get, stub_btree_table_get)]
		#[kani::stub(std::hash::RandomState::new, crate::verif_stubs::random_state_new)]
		#[kani::stub(parking_lot::RawRwLock::lock_shared_slow, crate::verif_stubs::lock_shared_slow)]
		#[kani::stub(parking_lot::RawRwLock::unlock_shared_slow, crate::verif_stubs::unlock_shared_slow)]
		#[kani::stub(parking_lot::RawRwLock::lock_exclusive_slow, crate::verif_stubs::lock_exclusive_slow)]
		#[kani::stub(parking_lot::RawRwLock::unlock_exclusive_slow, crate::verif_stubs::unlock_exclusive_slow)]
		#[kani::stub(parking_lot::RawRwLock::lock_upgradable_slow, crate::verif_stubs::lock_upgradable_slow)]
		#[kani::stub(parking_lot::RawRwLock::unlock_upgradable_slow, crate::verif_stubs::unlock_upgradable_slow)]
		#[kani::stub(parking_lot::RawRwLock::upgrade_slow, crate::verif_stubs::upgrade_slow)]
		#[kani::stub(parking_lot::RawRwLock::downgrade_slow, crate::verif_stubs::downgrade_slow)]
		#[kani::stub(parking_lot::RawRwLock::downgrade_to_upgradable_slow, crate::verif_stubs::downgrade_to_upgradable_slow)]
		#[kani::stub(parking_lot::RawRwLock::try_lock_shared_slow, crate::verif_stubs::try_lock_shared_slow)]
		#[kani::stub(parking_lot::RawRwLock::try_lock_upgradable_slow, crate::verif_stubs::try_lock_upgradable_slow)]
		#[kani::stub(parking_lot::RawRwLock::try_upgrade_slow, crate::verif_stubs::try_upgrade_slow)]
		#[kani::stub(parking_lot::RawMutex::bump_slow, crate::verif_stubs::mutex_bump_slow)]
		#[kani::stub(parking_lot::RawMutex::lock_slow, crate::verif_stubs::mutex_lock_slow)]
		#[kani::stub(parking_lot::RawMutex::unlock_slow, crate::verif_stubs::mutex_unlock_slow)]
		#[kani::stub(parking_lot::Condvar::notify_one_slow, crate::verif_stubs::condvar_notify_one_slow)]
		#[kani::stub(parking_lot::Condvar::notify_all_slow, crate::verif_stubs::condvar_notify_all_slow)]
		#[kani::stub(parking_lot::Condvar::wait_until_internal, crate::verif_stubs::condvar_wait_until_internal)]
		#[kani::stub(std::fmt::format, crate::verif_stubs::fmt_format)]
		fn $name() {
			$body
		}
	};
}
pub(crate) fn stub_column_get_unreachable<L: crate::log::LogQuery>(_c: &crate::column::HashColumn, _key: &Key, _log: &L) -> Result<Option<(Value, u32)>> {
	assert!(false, "U30.hash_branch_not_reached_for_a_btree_column");
	Ok(None)
}
pub(crate) fn stub_overlay_get_ref_unreachable<'a>(_o: &'a CommitOverlay, _key: &[u8]) -> Option<Option<&'a RcValue>> {
	assert!(false, "U30.hash_branch_not_reached_for_a_btree_column");
	None
}
pub(crate) static mut BK_OK: bool = true;
// commit overlay lookup of a btree column by contract (modes as above); the user key is looked up as given (btree keys are not hashed)
pub(crate) fn stub_overlay_btree_get<'a>(_o: &'a CommitOverlay, key: &[u8]) -> Option<Option<&'a RcValue>> {
	unsafe {
		OV_N += 1;
		BK_OK = BK_OK && key.len() == 4 && key[0] == HK[0] && key[3] == HK[3];
		match OV_MODE {
			0 => None,
			1 => Some(None),
			_ => {
				let v: &'static RcValue = Box::leak(Box::new(RcValue::from(vec![OV_VAL[0], OV_VAL[1]])));
				Some(Some(v))
			},
		}
	}
}
// BTreeTable::get by contract: what the tree (log overlay, then tables) holds for the key
pub(crate) fn stub_btree_table_get<L: crate::log::LogQuery>(key: &[u8], _log: &L, _values: crate::column::TablesRef) -> Result<Option<Vec<u8>>> {
	unsafe {
		CG_N += 1;
		BK_OK = BK_OK && key.len() == 4 && key[0] == HK[0] && key[3] == HK[3];
		if CG_HIT {
			Ok(Some(vec![CG_VAL[0], CG_VAL[1], CG_VAL[2]]))
		} else {
			Ok(None)
		}
	}
}
fn mk_db_one_btree_column() -> std::mem::ManuallyDrop<DbInner> {
	let mut db = mk_db_one_hash_column();
	let old = std::mem::replace(&mut db.columns, vec![Column::Tree(crate::btree::verif_btree_mod::mk_btree_table_empty())]);
	std::mem::forget(old);
	unsafe {
		BK_OK = true;
	}
	db
}
db_bt_harness!(#[kani::unwind(5)] u30_btree_get_consults_commit_overlay_then_tree, {
	let db = mk_db_one_btree_column();
	let user_key: [u8; 4] = [unsafe { HK[0] }, kani::any(), kani::any(), unsafe { HK[3] }];
	let r = ok(db.get(0, &user_key, true));
	let (mode, hit) = unsafe { (OV_MODE, CG_HIT) };
	assert!(unsafe { BK_OK }, "U30.btree.get.looks_up_the_key_as_given");
	match r {
		None => assert!(false, "U30.btree.get.no_error"),
		Some(got) => {
			if mode == 1 {
				assert!(got.is_none(), "U30.btree.get.queued_removal_hides_stored_value");
			} else if mode >= 2 {
				match &got {
					Some(v) => assert!(v.len() == 2 && v[0] == unsafe { OV_VAL[0] } && v[1] == unsafe { OV_VAL[1] }, "U30.btree.get.queued_value_wins"),
					None => assert!(false, "U30.btree.get.queued_value_wins"),
				}
			} else {
				match &got {
					Some(v) => assert!(hit && v.len() == 3 && v[0] == unsafe { CG_VAL[0] } && v[2] == unsafe { CG_VAL[2] }, "U30.btree.get.overlay_miss_returns_the_tree_value"),
					None => assert!(!hit, "U30.btree.get.overlay_miss_absent_iff_tree_absent"),
				}
			}
			std::mem::forget(got);
		},
	}
	kani::cover!(mode == 0 && hit, "reached");
});
db_bt_harness!(#[kani::unwind(5)] u30_btree_get_size_is_the_length_of_what_get_returns, {
	let db = mk_db_one_btree_column();
	let user_key: [u8; 4] = [unsafe { HK[0] }, kani::any(), kani::any(), unsafe { HK[3] }];
	let r = ok(db.get_size(0, &user_key));
	let (mode, hit) = unsafe { (OV_MODE, CG_HIT) };
	match r {
		None => assert!(false, "U30.btree.get_size.no_error"),
		Some(got) => {
			let want = if mode == 1 { None } else if mode >= 2 { Some(2u32) } else if hit { Some(3u32) } else { None };
			assert!(got == want, "U30.btree.get_size.equals_length_of_the_value_get_returns");
		},
	}
	kani::cover!(mode == 0 && hit, "reached");
});

// ================================================================== U38: tree nodes are read from the commit overlay first, then from the column,
// and are unpacked by the decoder proved under U11. DbInner::{get_node, get_node_children, get_root} on a multitree column.
pub(crate) static mut NA_MODE: u8 = 0; // 0 = node not in the commit overlay, 1 = in the commit overlay
pub(crate) static mut NA_ADDR_OK: bool = true;
pub(crate) static mut NA_ADDR: u64 = 0;
pub(crate) static mut NA_OV: [u8; 11] = [0; 11];
pub(crate) static mut NA_COL: [u8; 11] = [0; 11];
pub(crate) static mut NA_COL_HIT: bool = false;
pub(crate) static mut NA_COL_N: usize = 0;
// the packed node as a heap vector whose child-count byte is a constant for the symbolic executor (written by itself)
fn packed_vec(p: &[u8; 11]) -> Vec<u8> {
	let mut v = Vec::with_capacity(11);
	v.push(p[0]);
	v.push(p[1]);
	v.push(p[2]);
	v.push(p[3]);
	v.push(p[4]);
	v.push(p[5]);
	v.push(p[6]);
	v.push(p[7]);
	v.push(p[8]);
	v.push(p[9]);
	v.push(1u8);
	v
}
fn packed_node(a: u8, b: u8, child: u64) -> [u8; 11] {
	let c = child.to_le_bytes();
	[a, b, c[0], c[1], c[2], c[3], c[4], c[5], c[6], c[7], 1]
}
// CommitOverlay::get_address by contract: the node queued at this address, if any
pub(crate) fn stub_overlay_get_address(_o: &CommitOverlay, address: u64) -> Option<RcValue> {
	unsafe {
		NA_ADDR_OK = NA_ADDR_OK && address == NA_ADDR;
		if NA_MODE == 1 {
			Some(RcValue::from(packed_vec(&NA_OV)))
		} else {
			None
		}
	}
}
// HashColumn::get_value by contract: the node stored at this address (log overlay, then tables), if any
pub(crate) fn stub_column_get_value<L: crate::log::LogQuery>(_c: &crate::column::HashColumn, address: crate::index::Address, _log: &L) -> Result<Option<Value>> {
	unsafe {
		NA_COL_N += 1;
		NA_ADDR_OK = NA_ADDR_OK && address.as_u64() == NA_ADDR;
		if NA_COL_HIT {
			Ok(Some(packed_vec(&NA_COL)))
		} else {
			Ok(None)
		}
	}
}
fn mk_db_one_multitree_column() -> std::mem::ManuallyDrop<DbInner> {
	let mut db = mk_db_one_hash_column();
	db.options.columns[0].multitree = true;
	db.options.columns[0].append_only = true;
	unsafe {
		NA_MODE = kani::any::<u8>() % 2;
		NA_ADDR_OK = true;
		NA_ADDR = kani::any();
		NA_COL_HIT = kani::any();
		NA_COL_N = 0;
	}
	db
}
db_harness!(#[kani::unwind(4)]
	#[kani::stub(CommitOverlay::get_address, stub_overlay_get_address)]
	#[kani::stub(crate::column::HashColumn::get_value, stub_column_get_value)]
	u38_node_read_from_overlay_then_column_and_unpacked, {
	let db = mk_db_one_multitree_column();
	let (a1, b1, a2, b2): (u8, u8, u8, u8) = (kani::any(), kani::any(), kani::any(), kani::any());
	let (c1, c2): (u64, u64) = (kani::any(), kani::any());
	unsafe {
		NA_OV = packed_node(a1, b1, c1);
		NA_COL = packed_node(a2, b2, c2);
	}
	let addr = unsafe { NA_ADDR };
	let r = ok(db.get_node(0, addr, true));
	let (mode, hit) = unsafe { (NA_MODE, NA_COL_HIT) };
	assert!(unsafe { NA_ADDR_OK }, "U38.get_node.looks_up_the_address_as_given");
	match r {
		None => assert!(false, "U38.get_node.no_error"),
		Some(got) => {
			let want = if mode == 1 { Some((a1, b1, c1)) } else if hit { Some((a2, b2, c2)) } else { None };
			match (&got, want) {
				(Some((data, children)), Some((a, b, c))) => {
					assert!(data.len() == 2 && data[0] == a && data[1] == b, "U38.get_node.returns_exactly_the_node_data");
					assert!(children.len() == 1 && children[0] == c, "U38.get_node.returns_exactly_the_children_in_order");
				},
				(None, None) => {},
				_ => assert!(false, "U38.get_node.present_iff_overlay_or_column_holds_the_node"),
			}
			std::mem::forget(got);
		},
	}
	kani::cover!(mode == 0 && hit, "reached");
});
db_harness!(#[kani::unwind(4)]
	#[kani::stub(CommitOverlay::get_address, stub_overlay_get_address)]
	#[kani::stub(crate::column::HashColumn::get_value, stub_column_get_value)]
	u38_node_children_read_from_overlay_then_column, {
	let db = mk_db_one_multitree_column();
	let (c1, c2): (u64, u64) = (kani::any(), kani::any());
	unsafe {
		NA_OV = packed_node(kani::any(), kani::any(), c1);
		NA_COL = packed_node(kani::any(), kani::any(), c2);
	}
	let addr = unsafe { NA_ADDR };
	let r = ok(db.get_node_children(0, addr, true));
	let (mode, hit) = unsafe { (NA_MODE, NA_COL_HIT) };
	match r {
		None => assert!(false, "U38.get_node_children.no_error"),
		Some(got) => {
			let want = if mode == 1 { Some(c1) } else if hit { Some(c2) } else { None };
			match (&got, want) {
				(Some(children), Some(c)) => assert!(children.len() == 1 && children[0] == c, "U38.get_node_children.returns_exactly_the_children_in_order"),
				(None, None) => {},
				_ => assert!(false, "U38.get_node_children.present_iff_overlay_or_column_holds_the_node"),
			}
			std::mem::forget(got);
		},
	}
	kani::cover!(mode == 1, "reached");
});
