// Appended to /repo/src/log.rs of the scratch copy: a LogReader whose `read` is replaced by its contract
// ("fills the buffer with arbitrary bytes, or fails"), plus byte accounting. Used by U9.
#![allow(dead_code, unused_variables, unused_imports, static_mut_refs)]
use super::*;

pub(crate) static mut RD_CALLS: usize = 0;
pub(crate) static mut RD_BYTES: u64 = 0;
pub(crate) static mut RD_FAIL_AT: usize = usize::MAX;
pub(crate) static mut RD_HEAD: [u8; 8] = [0u8; 8];
pub(crate) static mut RD_MAXLEN: usize = 0;
pub(crate) static mut RD_SEEN: [u8; 2] = [0u8; 2];

// contract of LogReader::read: Ok(()) after filling `buf` (content arbitrary: the first read is served from RD_HEAD so
// that validate and enact can be fed the same stream; later buffers are left as they are, i.e. arbitrary), or Err.
pub(crate) fn stub_read<'a>(_r: &mut LogReader<'a>, buf: &mut [u8]) -> Result<()>
where
	'a: 'a,
{
	unsafe {
		let n = RD_CALLS;
		RD_CALLS = n + 1;
		if n == RD_FAIL_AT {
			return Err(Error::Corruption(String::new()))
		}
		RD_BYTES += buf.len() as u64;
		if buf.len() > RD_MAXLEN {
			RD_MAXLEN = buf.len();
		}
		if n == 0 {
			if buf.len() == 8 {
				// small stack buffers (index / ref-count mask word): served from RD_HEAD
				buf[0] = RD_HEAD[0];
				buf[1] = RD_HEAD[1];
				buf[2] = RD_HEAD[2];
				buf[3] = RD_HEAD[3];
				buf[4] = RD_HEAD[4];
				buf[5] = RD_HEAD[5];
				buf[6] = RD_HEAD[6];
				buf[7] = RD_HEAD[7];
			} else if buf.len() == 2 {
				// the value-entry buffer is uninitialised (= arbitrary) memory: its content *is* the arbitrary record and
				// is left untouched; the size word is only observed
				RD_SEEN = [buf[0], buf[1]];
			}
		}
		Ok(())
	}
}

pub(crate) fn reader_reset(head: [u8; 8], fail_at: usize) {
	unsafe {
		RD_CALLS = 0;
		RD_BYTES = 0;
		RD_MAXLEN = 0;
		RD_FAIL_AT = fail_at;
		RD_HEAD = head;
	}
}
pub(crate) fn reader_rewind() {
	unsafe {
		RD_CALLS = 0;
		RD_BYTES = 0;
		RD_MAXLEN = 0;
	}
}
pub(crate) fn reader_seen() -> [u8; 2] {
	unsafe { RD_SEEN }
}
pub(crate) fn reader_stats() -> (usize, u64, usize) {
	unsafe { (RD_CALLS, RD_BYTES, RD_MAXLEN) }
}

pub(crate) fn mk_reader() -> LogReader<'static> {
	let l: &'static RwLock<Option<Reading>> = Box::leak(Box::new(RwLock::new(None)));
	LogReader::new(l.write(), true)
}

// a Log with no files (only `overlays()` is used by the code under proof)
pub(crate) fn mk_log() -> Log {
	Log {
		overlays: RwLock::new(LogOverlays::with_columns(0)),
		appending: RwLock::new(None),
		reading: RwLock::new(None),
		read_queue: RwLock::default(),
		next_record_id: AtomicU64::new(1),
		dirty: AtomicBool::new(false),
		log_pool: RwLock::default(),
		cleanup_queue: RwLock::default(),
		replay_queue: RwLock::default(),
		path: std::path::PathBuf::new(),
		next_log_id: AtomicU32::new(0),
		sync: false,
	}
}

pub(crate) fn mk_reader_with_id(record_id: u64) -> LogReader<'static> {
	let mut r = mk_reader();
	r.record_id = record_id;
	r
}

// ================================================================== U26: chunk records of one log record accumulate
// their modified-slot masks. A chunk (index page / ref-count page) changed in several slots by one record is logged once,
// with the union of the slot bits: the apply pass (enact_plan) copies exactly the masked slots into the file.
fn ok<T>(r: Result<T>) -> Option<T> {
	match r {
		Ok(v) => Some(v),
		Err(e) => {
			std::mem::forget(e);
			None
		},
	}
}

macro_rules! writer_harness {
	($(#[$m:meta])* $name:ident, $body:expr) => {
		#[kani::proof]
		#[kani::solver(kissat)]
		$(#[$m])*
		#[kani::stub(std::hash::RandomState::new, crate::verif_stubs::random_state_new)]
		#[kani::stub(parking_lot::RawRwLock::lock_shared_slow, crate::verif_stubs::lock_shared_slow)]
		#[kani::stub(parking_lot::RawRwLock::unlock_shared_slow, crate::verif_stubs::unlock_shared_slow)]
		#[kani::stub(parking_lot::RawRwLock::lock_exclusive_slow, crate::verif_stubs::lock_exclusive_slow)]
		#[kani::stub(parking_lot::RawRwLock::unlock_exclusive_slow, crate::verif_stubs::unlock_exclusive_slow)]
		#[kani::stub(std::fmt::format, crate::verif_stubs::fmt_format)]
		#[kani::stub(crc32fast::Hasher::new, crate::verif_stubs::crc_hasher_new)]
		fn $name() {
			$body
		}
	};
}

fn u26_ref_count_body() {
	let overlays: &'static RwLock<LogOverlays> = Box::leak(Box::new(RwLock::new(LogOverlays::with_columns(0))));
	let rid: u64 = kani::any();
	let mut w = std::mem::ManuallyDrop::new(LogWriter::new(overlays, rid));
	let table = RefCountTableId::new(0, 16);
	let s1: u8 = kani::any();
	let s2: u8 = kani::any();
	kani::assume(s1 < 64 && s2 < 64);
	let b1: u8 = kani::any();
	let b2: u8 = kani::any();
	let b3: u8 = kani::any();
	w.insert_ref_count(table, 5, s1, RefCountChunk([b1; std::mem::size_of::<RefCountChunk>()]));
	w.insert_ref_count(table, 9, 3, RefCountChunk([b3; std::mem::size_of::<RefCountChunk>()]));
	w.insert_ref_count(table, 5, s2, RefCountChunk([b2; std::mem::size_of::<RefCountChunk>()]));
	let m = &w.log.local_ref_count.get(&table).unwrap().map;
	let e = m.get(&5).unwrap();
	assert!(e.0 == rid, "U26.ref_count.record_id");
	assert!(e.1 == (1u64 << s1) | (1u64 << s2), "U26.ref_count.mask_is_union_of_modified_slots");
	let q: usize = kani::any();
	kani::assume(q < std::mem::size_of::<RefCountChunk>());
	assert!(e.2 .0[q] == b2, "U26.ref_count.latest_chunk_content");
	let f = m.get(&9).unwrap();
	assert!(f.1 == 1u64 << 3 && f.2 .0[q] == b3, "U26.ref_count.other_chunks_untouched");
	assert!(m.len() == 2, "U26.ref_count.one_record_per_chunk");
	kani::cover!(s1 != s2, "reached");
}
writer_harness!(#[kani::unwind(6)] u26_ref_count_masks_accumulate, u26_ref_count_body());

fn u26_index_body() {
	let overlays: &'static RwLock<LogOverlays> = Box::leak(Box::new(RwLock::new(LogOverlays::with_columns(0))));
	let rid: u64 = kani::any();
	let mut w = std::mem::ManuallyDrop::new(LogWriter::new(overlays, rid));
	let table = IndexTableId::new(0, 16);
	let s1: u8 = kani::any();
	let s2: u8 = kani::any();
	kani::assume(s1 < 64 && s2 < 64);
	let b1: u8 = kani::any();
	let b2: u8 = kani::any();
	let b3: u8 = kani::any();
	w.insert_index(table, 5, s1, IndexChunk([b1; std::mem::size_of::<IndexChunk>()]));
	w.insert_index(table, 9, 3, IndexChunk([b3; std::mem::size_of::<IndexChunk>()]));
	w.insert_index(table, 5, s2, IndexChunk([b2; std::mem::size_of::<IndexChunk>()]));
	let m = &w.log.local_index.get(&table).unwrap().map;
	let e = m.get(&5).unwrap();
	assert!(e.0 == rid, "U26.index.record_id");
	assert!(e.1 == (1u64 << s1) | (1u64 << s2), "U26.index.mask_is_union_of_modified_slots");
	let q: usize = kani::any();
	kani::assume(q < std::mem::size_of::<IndexChunk>());
	assert!(e.2 .0[q] == b2, "U26.index.latest_chunk_content");
	let f = m.get(&9).unwrap();
	assert!(f.1 == 1u64 << 3 && f.2 .0[q] == b3, "U26.index.other_chunks_untouched");
	assert!(m.len() == 2, "U26.index.one_record_per_chunk");
	kani::cover!(s1 != s2, "reached");
}
writer_harness!(#[kani::unwind(6)] u26_index_masks_accumulate, u26_index_body());

// ================================================================== U32: a log file becomes readable (its records can be applied) only after it was synced
pub(crate) static mut SYNC_N: usize = 0;
pub(crate) static mut SYNC_FAIL: bool = false;
pub(crate) static mut SYNC_QUEUE_LEN: usize = 0;
pub(crate) static mut LOGP: *const Log = std::ptr::null();
pub(crate) static mut SYNC_APPENDABLE: bool = false;
// File::try_clone (dup(2), foreign) by contract: another handle on the same file. The code as it is does not call it; declared
// so that an edit that syncs through a second handle is decided instead of rejected.
pub(crate) fn stub_try_clone(f: &std::fs::File) -> std::io::Result<std::fs::File> {
	use std::os::fd::{AsRawFd, FromRawFd};
	Ok(unsafe { std::fs::File::from_raw_fd(f.as_raw_fd() + 100) })
}
// std::fs::File::sync_data by contract: fdatasync succeeded, or failed
pub(crate) fn stub_sync_data(_f: &std::fs::File) -> std::io::Result<()> {
	unsafe {
		SYNC_N += 1;
		// the read queue must not already hold (or be in the middle of receiving) the file that is being synced
		SYNC_QUEUE_LEN = if (*LOGP).read_queue.is_locked_exclusive() { usize::MAX } else { (*LOGP).read_queue.read().len() };
		// can the log worker still append a record to the file while / after it is synced?  Not if this thread holds the
		// writer slot exclusively or has already taken the file out of it.
		if !(*LOGP).appending.is_locked_exclusive() && (*LOGP).appending.read().is_some() {
			SYNC_APPENDABLE = true;
		}
		if SYNC_FAIL {
			Err(std::io::Error::from_raw_os_error(5))
		} else {
			Ok(())
		}
	}
}
writer_harness!(#[kani::unwind(4)] #[kani::stub(std::fs::File::sync_data, stub_sync_data)] #[kani::stub(std::fs::File::try_clone, stub_try_clone)] #[kani::stub(<std::os::fd::OwnedFd as std::ops::Drop>::drop, stub_owned_fd_drop)] u32_log_file_synced_before_it_becomes_readable, {
	use std::os::fd::FromRawFd;
	let mut log = std::mem::ManuallyDrop::new(mk_log());
	let sync: bool = kani::any();
	log.sync = sync;
	let size: u64 = kani::any();
	let min_size: u64 = kani::any();
	let id: u32 = kani::any();
	// a file handle that is never used for I/O in this harness (sync_data is a contract, the write buffer is empty)
	let file = unsafe { std::fs::File::from_raw_fd(3) };
	*log.appending.write() = Some(Appending { id, file: std::io::BufWriter::with_capacity(8, file), size });
	unsafe {
		SYNC_N = 0;
		// the failing-sync path drops the File inside flush_one: close(2) is replaced by a recorder (stub_owned_fd_drop)
		SYNC_FAIL = kani::any();
		SYNC_QUEUE_LEN = 0;
		SYNC_APPENDABLE = false;
		LOGP = &*log as *const Log;
	}
	let r = ok(log.flush_one(min_size));
	let queued = log.read_queue.read().len();
	// whatever was synced: a record appended after the sync started would be handed over (and applied) unsynced
	assert!(!unsafe { SYNC_APPENDABLE }, "U32.flush_one.no_record_can_be_appended_to_the_file_once_its_sync_has_started");
	if size > min_size && sync && unsafe { SYNC_FAIL } {
		// the records of a log whose sync failed never become readable: nothing of it can be applied to the tables
		assert!(r.is_none() && queued == 0, "U32.flush_one.a_failed_sync_leaves_the_log_unreadable");
	} else if size > min_size {
		assert!(r.is_some(), "U32.flush_one.no_error");
		assert!(queued + (if log.appending.read().is_some() { 1 } else { 0 }) == 1, "U32.flush_one.the_log_file_is_neither_lost_nor_duplicated");
		if queued == 1 && sync {
			assert!(unsafe { SYNC_N } >= 1 && unsafe { SYNC_QUEUE_LEN } == 0, "U32.flush_one.synced_before_it_becomes_readable");
		}
		if queued == 1 {
			assert!(matches!(log.read_queue.read().front(), Some((i, _)) if *i == id), "U32.flush_one.same_file_id");
		}
	} else {
		// (when a small log is handed over is a policy; the ordering obligation is only about what becomes readable)
		assert!(r.is_some(), "U32.flush_one.no_error");
		if queued == 1 && sync {
			assert!(unsafe { SYNC_N } >= 1 && unsafe { SYNC_QUEUE_LEN } == 0, "U32.flush_one.synced_before_it_becomes_readable");
		}
	}
	kani::cover!(queued == 1 && sync, "reached");
});

// ================================================================== U46: Log::read_next classifies the outcome of reading a record header
// LogReader::next replaced by its contract with a scripted outcome. Only a clean end of file ends the log file (it is then handed
// to the cleanup stage); any other I/O error is reported and the file stays where it is (its records were not applied, so it must
// never reach the stage that truncates it).
pub(crate) static mut NEXT_MODE: u8 = 0;
pub(crate) fn stub_reader_next<'a>(_r: &mut LogReader<'a>) -> Result<LogAction>
where
	'a: 'a,
{
	match unsafe { NEXT_MODE } {
		0 => Ok(LogAction::BeginRecord),
		1 => Ok(LogAction::EndRecord),
		2 => Err(Error::Io(std::io::Error::from(std::io::ErrorKind::UnexpectedEof))),
		3 => Err(Error::Io(std::io::Error::from(std::io::ErrorKind::Other))),
		4 => Err(Error::Io(std::io::Error::from(std::io::ErrorKind::Interrupted))),
		_ => Err(Error::Corruption(String::new())),
	}
}
writer_harness!(#[kani::unwind(4)] #[kani::stub(LogReader::next, stub_reader_next)] u46_read_next_reports_io_errors, {
	use std::os::fd::FromRawFd;
	let log = std::mem::ManuallyDrop::new(mk_log());
	let id: u32 = kani::any();
	let validate: bool = kani::any();
	// a file handle that is never used for I/O in this harness (LogReader::next is a contract)
	let file = unsafe { std::fs::File::from_raw_fd(3) };
	*log.reading.write() = Some(Reading { id, file: std::io::BufReader::with_capacity(8, file) });
	let mode: u8 = kani::any();
	kani::assume(mode <= 5);
	unsafe { NEXT_MODE = mode };
	let r = log.read_next(validate);
	let (is_err, is_some) = match r {
		Ok(Some(reader)) => {
			std::mem::forget(reader);
			(false, true)
		},
		Ok(None) => (false, false),
		Err(e) => {
			std::mem::forget(e);
			(true, false)
		},
	};
	let in_cleanup = if log.cleanup_queue.is_locked() { usize::MAX } else { log.cleanup_queue.read().len() };
	match mode {
		0 => assert!(!is_err && is_some && in_cleanup == 0, "U46.read_next.a_record_header_yields_a_reader"),
		2 => {
			// clean end of file: the log file is exhausted and goes to cleanup
			assert!(!is_err && !is_some, "U46.read_next.end_of_file_is_the_end_of_the_log_not_an_error");
		},
		3 | 4 => {
			assert!(is_err, "U46.read_next.an_io_error_is_reported");
			assert!(in_cleanup == 0, "U46.read_next.a_log_file_that_failed_to_read_is_not_handed_to_cleanup");
		},
		_ => {
			assert!(is_err, "U46.read_next.a_malformed_record_is_reported");
			assert!(in_cleanup == 0, "U46.read_next.a_log_file_that_failed_to_read_is_not_handed_to_cleanup");
		},
	}
	kani::cover!(mode == 3 && is_err, "reached");
	kani::cover!(mode == 2 && !is_err, "reached eof");
});

// ================================================================== U47: Log::kill_logs deletes only what has been applied
// Shutdown deletes the recycled (empty) log files of the pool and the file whose records were all applied (`reading`); a log file
// that is still waiting to be applied (read queue) is left on disk for replay at the next open.
pub(crate) static mut DROPPED_N: usize = 0;
pub(crate) static mut DROPPED_QUEUED: bool = false;
pub(crate) static mut QUEUED_ID: u32 = 0;
pub(crate) fn stub_drop_log(_l: &Log, id: u32) -> Result<()> {
	unsafe {
		DROPPED_N += 1;
		if id == QUEUED_ID {
			DROPPED_QUEUED = true;
		}
	}
	Ok(())
}
// closing a descriptor (close(2)) is foreign code: the drop of the descriptor is replaced by a recorder
pub(crate) static mut CLOSED_N: usize = 0;
pub(crate) fn stub_owned_fd_drop(_fd: &mut std::os::fd::OwnedFd) {
	unsafe { CLOSED_N += 1 };
}
pub(crate) static mut DROPPED_IDS: [u32; 4] = [0; 4];
writer_harness!(#[kani::unwind(4)] #[kani::stub(Log::drop_log, stub_drop_log2)] #[kani::stub(<std::os::fd::OwnedFd as std::ops::Drop>::drop, stub_owned_fd_drop)] u47_kill_logs_keeps_unapplied_log_files, {
	use std::os::fd::FromRawFd;
	let log = std::mem::ManuallyDrop::new(mk_log());
	let (q, p, r): (u32, u32, u32) = (kani::any(), kani::any(), kani::any());
	kani::assume(q != p && q != r && p != r);
	let has_pool: bool = kani::any();
	let has_reading: bool = kani::any();
	log.read_queue.write().push_back((q, unsafe { std::fs::File::from_raw_fd(3) }));
	if has_pool {
		log.log_pool.write().push_back((p, unsafe { std::fs::File::from_raw_fd(4) }));
	}
	if has_reading {
		*log.reading.write() = Some(Reading { id: r, file: std::io::BufReader::with_capacity(8, unsafe { std::fs::File::from_raw_fd(5) }) });
	}
	unsafe {
		DROPPED_N = 0;
		DROPPED_QUEUED = false;
		QUEUED_ID = q;
		CLOSED_N = 0;
	}
	let res = ok(log.kill_logs());
	assert!(res.is_some(), "U47.kill_logs.no_error");
	assert!(!unsafe { DROPPED_QUEUED }, "U47.kill_logs.a_log_file_waiting_to_be_applied_is_not_deleted");
	assert!(log.read_queue.read().len() == 1, "U47.kill_logs.the_read_queue_is_left_for_replay_at_the_next_open");
	// recycled (empty) pool files and the fully applied file are removed
	let n = unsafe { DROPPED_N };
	assert!(n == (has_pool as usize) + (has_reading as usize), "U47.kill_logs.pool_files_and_the_applied_file_are_deleted");
	if has_pool {
		assert!(unsafe { DROPPED_IDS[0] } == p, "U47.kill_logs.pool_files_and_the_applied_file_are_deleted");
	}
	if has_reading {
		assert!(unsafe { DROPPED_IDS[has_pool as usize] } == r, "U47.kill_logs.pool_files_and_the_applied_file_are_deleted");
	}
	kani::cover!(has_pool && has_reading && res.is_some(), "reached");
});
pub(crate) fn stub_drop_log2(_l: &Log, id: u32) -> Result<()> {
	unsafe {
		if DROPPED_N < 4 {
			DROPPED_IDS[DROPPED_N] = id;
		}
		DROPPED_N += 1;
		if id == QUEUED_ID {
			DROPPED_QUEUED = true;
		}
	}
	Ok(())
}

// ================================================================== U51: every byte of a record has reached the log file when the file is synced
// The log file is written through a std BufWriter. Two places can make sure nothing is still buffered when fdatasync runs:
// LogChange::flush_to_file flushes the writer after each record (P1), or Log::flush_one unwraps the writer (which flushes it)
// before it syncs (P2). The obligation "synced log files contain all their records" fails only if BOTH are gone; the two
// harnesses form an alternative group (lib/units.py: alt="wal_bytes_reach_file_before_sync").
pub(crate) static mut FILE_BYTES: usize = 0;
pub(crate) static mut SYNC_SAW_BYTES: usize = usize::MAX;
// <File as Write>::write by contract: the bytes are handed to the kernel (all of them), or the call fails -- never here
pub(crate) fn stub_file_write(_f: &mut std::fs::File, buf: &[u8]) -> std::io::Result<usize> {
	unsafe { FILE_BYTES += buf.len() };
	Ok(buf.len())
}
pub(crate) fn stub_sync_data_sees_bytes(_f: &std::fs::File) -> std::io::Result<()> {
	unsafe { SYNC_SAW_BYTES = FILE_BYTES };
	Ok(())
}
writer_harness!(#[kani::unwind(12)]
	#[kani::stub(std::fs::File::sync_data, stub_sync_data_sees_bytes)]
	#[kani::stub(<std::fs::File as std::io::Write>::write, stub_file_write)]
	#[kani::stub(std::fs::File::try_clone, stub_try_clone)]
	#[kani::stub(<std::os::fd::OwnedFd as std::ops::Drop>::drop, stub_owned_fd_drop)]
	u51_flush_one_syncs_buffered_bytes, {
	use std::{io::Write, os::fd::FromRawFd};
	let mut log = std::mem::ManuallyDrop::new(mk_log());
	log.sync = true;
	let id: u32 = kani::any();
	let file = unsafe { std::fs::File::from_raw_fd(3) };
	let mut bw = std::io::BufWriter::with_capacity(8, file);
	// five bytes of a record are still in the writer's buffer when the log is handed over
	unsafe {
		FILE_BYTES = 0;
		SYNC_SAW_BYTES = usize::MAX;
	}
	let _ = bw.write_all(&[1u8, 2, 3, 4, 5]);
	assert!(unsafe { FILE_BYTES } == 0 && bw.buffer().len() == 5, "verif: the bytes are buffered");
	*log.appending.write() = Some(Appending { id, file: bw, size: 5 });
	let r = ok(log.flush_one(0));
	assert!(r.is_some(), "U51.flush_one.no_error");
	if log.read_queue.read().len() == 1 {
		assert!(unsafe { SYNC_SAW_BYTES } == 5, "U51.flush_one.buffered_record_bytes_reach_the_file_before_it_is_synced");
	}
	kani::cover!(log.read_queue.read().len() == 1, "reached");
});
writer_harness!(#[kani::unwind(40)]
	#[kani::stub(<std::fs::File as std::io::Write>::write, stub_file_write)]
	#[kani::stub(<std::os::fd::OwnedFd as std::ops::Drop>::drop, stub_owned_fd_drop)]
	u51_flush_to_file_leaves_nothing_buffered, {
	use std::os::fd::FromRawFd;
	let file = unsafe { std::fs::File::from_raw_fd(3) };
	let mut bw = std::mem::ManuallyDrop::new(std::io::BufWriter::with_capacity(64, file));
	unsafe { FILE_BYTES = 0 };
	let rid: u64 = kani::any();
	// an empty record: BEGIN, id, END, checksum (14 bytes)
	let change = LogChange::new(rid);
	let r = match change.flush_to_file(&mut bw) {
		Ok(f) => {
			let b = f.bytes;
			std::mem::forget(f);
			Some(b)
		},
		Err(e) => {
			std::mem::forget(e);
			None
		},
	};
	assert!(r == Some(14), "U51.flush_to_file.no_error");
	assert!(bw.buffer().is_empty() && unsafe { FILE_BYTES } == 14, "U51.flush_to_file.nothing_of_the_record_stays_buffered");
	kani::cover!(r.is_some(), "reached");
});

// ================================================================== U61: Log::clean_logs reclaims enacted log files oldest first
// A crash between two truncations must leave a *suffix* of the enacted log files on disk: replay numbers records
// consecutively from the first file it finds, so an older file that survives while a newer one is already empty puts a hole
// in front of every synced, not yet enacted record behind it -- and replay discards everything after a hole.
// File::set_len / sync_all / seek (ftruncate, fsync, lseek: foreign) are replaced by recorders keyed by descriptor;
// sync_all may fail at an arbitrary call (the point at which the process stops).
pub(crate) static mut TRUNC_FDS: [i32; 4] = [-1; 4];
pub(crate) static mut TRUNC_N: usize = 0;
pub(crate) static mut SYNC_ALL_N: usize = 0;
pub(crate) static mut SYNC_ALL_FAIL_AT: usize = usize::MAX;
pub(crate) fn stub_set_len(f: &std::fs::File, size: u64) -> std::io::Result<()> {
	use std::os::fd::AsRawFd;
	unsafe {
		if TRUNC_N < 4 {
			TRUNC_FDS[TRUNC_N] = f.as_raw_fd();
		}
		TRUNC_N += 1;
	}
	assert!(size == 0, "U61.clean_logs.reclaimed_files_are_emptied");
	Ok(())
}
pub(crate) fn stub_file_seek(_f: &mut std::fs::File, _pos: std::io::SeekFrom) -> std::io::Result<u64> {
	Ok(0)
}
pub(crate) fn stub_sync_all(_f: &std::fs::File) -> std::io::Result<()> {
	unsafe {
		SYNC_ALL_N += 1;
		if SYNC_ALL_N - 1 == SYNC_ALL_FAIL_AT {
			return Err(std::io::Error::from_raw_os_error(5))
		}
	}
	Ok(())
}
fn u61_body(nfiles: usize, max_count: usize) {
	use std::os::fd::FromRawFd;
	let log = std::mem::ManuallyDrop::new(mk_log());
	let (a, b, c): (u32, u32, u32) = (kani::any(), kani::any(), kani::any());
	kani::assume(a != b && b != c && a != c);
	// enacted log files wait for reclamation, oldest first (descriptors 3, 4, 5 stand for the files)
	log.cleanup_queue.write().push_back((a, unsafe { std::fs::File::from_raw_fd(3) }));
	log.cleanup_queue.write().push_back((b, unsafe { std::fs::File::from_raw_fd(4) }));
	if nfiles > 2 {
		log.cleanup_queue.write().push_back((c, unsafe { std::fs::File::from_raw_fd(5) }));
	}
	let fail_at: usize = kani::any();
	unsafe {
		TRUNC_N = 0;
		TRUNC_FDS = [-1; 4];
		SYNC_ALL_N = 0;
		SYNC_ALL_FAIL_AT = fail_at;
		DROPPED_N = 0;
	}
	let res = ok(log.clean_logs(max_count));
	let n = unsafe { TRUNC_N };
	let want = if max_count < nfiles { max_count } else { nfiles };
	assert!(n <= want, "U61.clean_logs.never_more_files_than_asked_for_are_reclaimed");
	// whatever the point at which reclamation stops: the files emptied so far are the OLDEST ones, in queue order
	let mut i = 0;
	while i < 3 {
		if i < n {
			assert!(unsafe { TRUNC_FDS[i] } == 3 + i as i32, "U61.clean_logs.log_files_are_truncated_oldest_first");
		}
		i += 1;
	}
	if res.is_some() {
		// (how many of the files asked for are reclaimed, what the call reports and how large the pool may grow are policy)
		assert!(log.cleanup_queue.read().len() == nfiles - n, "U61.clean_logs.files_not_reclaimed_stay_queued");
	}
	kani::cover!(res.is_some() && n == want, "all reclaimed");
	kani::cover!(res.is_none() && n >= 1, "stopped by a failing fsync after a truncation");
}
macro_rules! u61_harness {
	($name:ident, $nf:expr, $mc:expr) => {
		writer_harness!(#[kani::unwind(6)] #[kani::stub(std::fs::File::set_len, stub_set_len)] #[kani::stub(std::fs::File::sync_all, stub_sync_all)] #[kani::stub(<std::fs::File as std::io::Seek>::seek, stub_file_seek)] #[kani::stub(Log::drop_log, stub_drop_log2)] #[kani::stub(<std::os::fd::OwnedFd as std::ops::Drop>::drop, stub_owned_fd_drop)] $name, u61_body($nf, $mc));
	};
}
u61_harness!(u61_clean_logs_f2_m2, 2, 2);
u61_harness!(u61_clean_logs_f2_m1, 2, 1);
u61_harness!(u61_clean_logs_f3_m2, 3, 2);
u61_harness!(u61_clean_logs_f3_m8, 3, 8);

// ================================================================== U63: Log::open_log_file classifies what it finds at the head of a log file
// A log file that ends before the first record header is complete (a crash while the first record was being appended) holds
// no record: it must be reported as empty -- Log::open then discards it and the database opens -- and not as an error, which
// would make every later open fail.  A read failure other than a clean end of file is reported.  A complete header yields the
// id it holds.  open(2) / fstat / read(2) / lseek are foreign: OpenOptions::open, File::metadata + Metadata::len,
// <File as Read>::read and <File as Seek>::seek are replaced by contracts over a scripted file (HEAD_LEN bytes available).
pub(crate) static mut HEAD_LEN: usize = 0;
pub(crate) static mut HEAD_POS: usize = 0;
pub(crate) static mut HEAD_BYTES: [u8; 9] = [0; 9];
pub(crate) static mut HEAD_READ_FAILS: bool = false;
pub(crate) static mut HEAD_REWOUND: bool = false;
pub(crate) fn stub_oo_open<P: AsRef<std::path::Path>>(_o: &std::fs::OpenOptions, _p: P) -> std::io::Result<std::fs::File> {
	use std::os::fd::FromRawFd;
	Ok(unsafe { std::fs::File::from_raw_fd(3) })
}
pub(crate) fn stub_file_metadata(_f: &std::fs::File) -> std::io::Result<std::fs::Metadata> {
	Ok(unsafe { std::mem::zeroed() })
}
pub(crate) fn stub_metadata_len(_m: &std::fs::Metadata) -> u64 {
	unsafe { HEAD_LEN as u64 }
}
pub(crate) fn stub_file_read(_f: &mut std::fs::File, buf: &mut [u8]) -> std::io::Result<usize> {
	unsafe {
		if HEAD_READ_FAILS {
			return Err(std::io::Error::from_raw_os_error(5))
		}
		let left = HEAD_LEN - HEAD_POS;
		let n = if buf.len() < left { buf.len() } else { left };
		let mut i = 0;
		while i < n {
			buf[i] = HEAD_BYTES[HEAD_POS + i];
			i += 1;
		}
		HEAD_POS += n;
		Ok(n)
	}
}
pub(crate) fn stub_file_seek_rewind(_f: &mut std::fs::File, pos: std::io::SeekFrom) -> std::io::Result<u64> {
	unsafe {
		if let std::io::SeekFrom::Start(0) = pos {
			HEAD_REWOUND = true;
			HEAD_POS = 0;
		}
	}
	Ok(0)
}
fn u63_body(len: usize, read_fails: bool) {
	let bytes: [u8; 9] = kani::any();
	unsafe {
		HEAD_LEN = len;
		HEAD_POS = 0;
		HEAD_BYTES = bytes;
		HEAD_READ_FAILS = read_fails;
		HEAD_REWOUND = false;
	}
	let r = ok(Log::open_log_file(std::path::Path::new("log0")));
	if read_fails && len > 0 {
		assert!(r.is_none(), "U63.open_log_file.a_read_failure_is_reported");
	} else if len < 9 {
		// no complete record header: the file holds no record (Log::open discards such a file)
		match &r {
			Some((_, id)) => assert!(id.is_none(), "U63.open_log_file.a_file_without_a_complete_header_holds_no_record"),
			None => assert!(false, "U63.open_log_file.a_truncated_header_is_not_an_error"),
		}
	} else {
		let mut w = [0u8; 8];
		w.copy_from_slice(&bytes[1..9]);
		match &r {
			Some((_, id)) => {
				assert!(*id == Some(u64::from_le_bytes(w)), "U63.open_log_file.first_record_id_is_read_from_the_header");
				assert!(unsafe { HEAD_REWOUND }, "U63.open_log_file.file_is_rewound_for_replay");
			},
			None => assert!(false, "U63.open_log_file.no_error_on_a_readable_header"),
		}
	}
	kani::cover!(r.is_some() || read_fails, "reached");
	std::mem::forget(r);
}
macro_rules! u63_harness {
	($name:ident, $len:expr, $fails:expr) => {
		writer_harness!(#[kani::unwind(11)] #[kani::stub(std::fs::OpenOptions::open, stub_oo_open)] #[kani::stub(std::fs::File::metadata, stub_file_metadata)] #[kani::stub(std::fs::Metadata::len, stub_metadata_len)] #[kani::stub(<std::fs::File as std::io::Read>::read, stub_file_read)] #[kani::stub(<std::fs::File as std::io::Seek>::seek, stub_file_seek_rewind)] #[kani::stub(<std::os::fd::OwnedFd as std::ops::Drop>::drop, stub_owned_fd_drop)] $name, u63_body($len, $fails));
	};
}
u63_harness!(u63_open_log_file_len0, 0, false);
u63_harness!(u63_open_log_file_len1, 1, false);
u63_harness!(u63_open_log_file_len8, 8, false);
u63_harness!(u63_open_log_file_len9, 9, false);
u63_harness!(u63_open_log_file_len9_read_fails, 9, true);

// ================================================================== U67: LogReader::next -- parsing of one log action and the checksum gate
// The record reader feeds every byte of a record (action bytes and their arguments; value / chunk payloads go through
// LogReader::read, U9) to the CRC-32 hasher and accepts the END_RECORD marker only if the four bytes behind it equal the
// hasher's result.  crc32fast enters by contract: `update` is a recorder that checks it is handed exactly the bytes read, in
// order; `finalize` returns a scripted value (the checksum of those bytes).  read(2) is a contract over a scripted stream
// (BufReader with capacity 0 hands every read straight to File::read).
pub(crate) static mut ST_BYTES: [u8; 16] = [0; 16];
pub(crate) static mut ST_POS: usize = 0;
pub(crate) static mut CRC_FED: usize = 0;
pub(crate) static mut CRC_FED_OK: bool = true;
pub(crate) static mut CRC_RESULT: u32 = 0;
pub(crate) static mut CRC_FINALIZED: usize = 0;
pub(crate) fn stub_stream_read(_f: &mut std::fs::File, buf: &mut [u8]) -> std::io::Result<usize> {
	unsafe {
		let left = 16 - ST_POS;
		let n = if buf.len() < left { buf.len() } else { left };
		let mut i = 0;
		while i < n {
			buf[i] = ST_BYTES[ST_POS + i];
			i += 1;
		}
		ST_POS += n;
		Ok(n)
	}
}
pub(crate) fn stub_crc_update(_h: &mut crc32fast::Hasher, buf: &[u8]) {
	unsafe {
		// the hasher must see the stream without gaps: what is fed now starts where the last feed ended
		let mut i = 0;
		while i < buf.len() {
			if CRC_FED + i >= 16 || buf[i] != ST_BYTES[CRC_FED + i] {
				CRC_FED_OK = false;
			}
			i += 1;
		}
		CRC_FED += buf.len();
	}
}
pub(crate) fn stub_crc_finalize(_h: crc32fast::Hasher) -> u32 {
	unsafe {
		CRC_FINALIZED += 1;
		CRC_RESULT
	}
}
fn u67_body(kind: u8, validate: bool) {
	use std::os::fd::FromRawFd;
	let mut bytes: [u8; 16] = kani::any();
	bytes[0] = kind;
	let expected: u32 = kani::any();
	unsafe {
		ST_BYTES = bytes;
		ST_POS = 0;
		CRC_FED = 0;
		CRC_FED_OK = true;
		CRC_RESULT = expected;
		CRC_FINALIZED = 0;
	}
	let l: &'static RwLock<Option<Reading>> = Box::leak(Box::new(RwLock::new(Some(Reading { id: 0, file: std::io::BufReader::with_capacity(0, unsafe { std::fs::File::from_raw_fd(3) }) }))));
	let mut r = std::mem::ManuallyDrop::new(LogReader::new(l.write(), validate));
	let res = ok(r.next());
	let consumed = unsafe { ST_POS };
	let fed = unsafe { CRC_FED };
	let mut w8 = [0u8; 8];
	w8.copy_from_slice(&bytes[1..9]);
	let mut w8b = [0u8; 8];
	w8b.copy_from_slice(&bytes[3..11]);
	let t16 = u16::from_le_bytes([bytes[1], bytes[2]]);
	let stored = u32::from_le_bytes([bytes[1], bytes[2], bytes[3], bytes[4]]);
	let known = kind == BEGIN_RECORD || kind == INSERT_INDEX || kind == INSERT_VALUE || kind == INSERT_REF_COUNT || kind == END_RECORD || kind == DROP_TABLE || kind == DROP_REF_COUNT_TABLE;
	if !known {
		assert!(res.is_none(), "U67.next.an_unknown_action_byte_is_rejected");
	} else if kind == END_RECORD {
		if validate {
			// the gate: the record is accepted exactly if the stored checksum is the checksum of the bytes read
			assert!(res.is_some() == (stored == expected), "U67.next.a_record_is_accepted_only_with_the_checksum_of_its_bytes");
			assert!(unsafe { CRC_FINALIZED } == 1, "U67.next.a_record_is_accepted_only_with_the_checksum_of_its_bytes");
		} else {
			assert!(res.is_some(), "U67.next.no_error");
		}
		assert!(consumed == 5, "U67.next.consumes_exactly_the_action");
		if validate {
			assert!(fed == 1 && unsafe { CRC_FED_OK }, "U67.next.every_byte_of_the_record_but_the_checksum_itself_is_hashed");
		}
		if let Some(a) = &res {
			assert!(matches!(a, LogAction::EndRecord), "U67.next.action_kind_follows_the_action_byte");
		}
	} else {
		assert!(res.is_some(), "U67.next.no_error");
		let want = if kind == BEGIN_RECORD { 9 } else if kind == DROP_TABLE || kind == DROP_REF_COUNT_TABLE { 3 } else { 11 };
		assert!(consumed == want, "U67.next.consumes_exactly_the_action");
		if validate {
			assert!(fed == want && unsafe { CRC_FED_OK }, "U67.next.every_byte_of_the_record_but_the_checksum_itself_is_hashed");
		}
		match res.as_ref().unwrap() {
			LogAction::BeginRecord => {
				assert!(kind == BEGIN_RECORD, "U67.next.action_kind_follows_the_action_byte");
				assert!(r.record_id() == u64::from_le_bytes(w8), "U67.next.record_id_is_read_from_the_header");
			},
			LogAction::InsertIndex(a) => {
				assert!(kind == INSERT_INDEX, "U67.next.action_kind_follows_the_action_byte");
				assert!(a.table.as_u16() == t16 && a.index == u64::from_le_bytes(w8b), "U67.next.table_and_position_are_read_from_the_action");
			},
			LogAction::InsertValue(a) => {
				assert!(kind == INSERT_VALUE, "U67.next.action_kind_follows_the_action_byte");
				assert!(a.table.as_u16() == t16 && a.index == u64::from_le_bytes(w8b), "U67.next.table_and_position_are_read_from_the_action");
			},
			LogAction::InsertRefCount(a) => {
				assert!(kind == INSERT_REF_COUNT, "U67.next.action_kind_follows_the_action_byte");
				assert!(a.table.as_u16() == t16 && a.index == u64::from_le_bytes(w8b), "U67.next.table_and_position_are_read_from_the_action");
			},
			LogAction::DropTable(t) => {
				assert!(kind == DROP_TABLE && t.as_u16() == t16, "U67.next.action_kind_follows_the_action_byte");
			},
			LogAction::DropRefCountTable(t) => {
				assert!(kind == DROP_REF_COUNT_TABLE && t.as_u16() == t16, "U67.next.action_kind_follows_the_action_byte");
			},
			LogAction::EndRecord => assert!(false, "U67.next.action_kind_follows_the_action_byte"),
		}
	}
	kani::cover!(res.is_some() || !known || kind == END_RECORD, "reached");
	std::mem::forget(res);
}
macro_rules! u67_harness {
	($name:ident, $kind:expr, $validate:expr) => {
		writer_harness!(#[kani::unwind(18)] #[kani::stub(<std::fs::File as std::io::Read>::read, stub_stream_read)] #[kani::stub(crc32fast::Hasher::update, stub_crc_update)] #[kani::stub(crc32fast::Hasher::finalize, stub_crc_finalize)] #[kani::stub(<std::os::fd::OwnedFd as std::ops::Drop>::drop, stub_owned_fd_drop)] $name, u67_body($kind, $validate));
	};
}
u67_harness!(u67_next_begin, BEGIN_RECORD, true);
u67_harness!(u67_next_insert_index, INSERT_INDEX, true);
u67_harness!(u67_next_insert_value, INSERT_VALUE, true);
u67_harness!(u67_next_insert_ref_count, INSERT_REF_COUNT, true);
u67_harness!(u67_next_end, END_RECORD, true);
u67_harness!(u67_next_end_no_validation, END_RECORD, false);
u67_harness!(u67_next_drop_table, DROP_TABLE, true);
u67_harness!(u67_next_drop_ref_count_table, DROP_REF_COUNT_TABLE, true);
u67_harness!(u67_next_unknown, 0, true);
u67_harness!(u67_next_insert_value_no_validation, INSERT_VALUE, false);
