// Appended to /repo/src/btree/btree.rs of the scratch copy. Unit U23: root bookkeeping of BTree::write_sorted_changes
// (grow by one level on a root split, shrink by one level and release the old root when it collapses, write the root back).
#![allow(dead_code, unused_variables, unused_imports, static_mut_refs, unused_mut)]
use super::*;
use crate::btree::node::{Child, Node, Separator, SeparatorInner};

fn ok<T>(r: Result<T>) -> Option<T> {
	match r {
		Ok(v) => Some(v),
		Err(e) => {
			std::mem::forget(e);
			None
		},
	}
}

// scripted callee behaviour (contracts):
//   Node::change            -> CHANGE_OUT: 0 nothing structural, 1 the root split (separator + right child returned), 2 the root may have collapsed
//   Node::need_remove_root  -> COLLAPSE: the root has no separator left and a single child (index COLLAPSE_CHILD)
//   BTreeTable::write_node_plan(node, old address) -> NEW_NODE_ADDR (the node had to move) or None (rewritten in place)
pub(crate) static mut CHANGE_OUT: u8 = 0;
pub(crate) static mut COLLAPSE: bool = false;
pub(crate) static mut COLLAPSE_CHILD: u64 = 0;
pub(crate) static mut WN_N: usize = 0;
pub(crate) static mut WN_OLD: [u64; 3] = [0; 3];
pub(crate) static mut WN_RET: [u64; 3] = [0; 3];
pub(crate) static mut WN_ROOTSEP: [u64; 3] = [0; 3];
pub(crate) static mut WN_CHILD0: [u64; 3] = [0; 3];
pub(crate) static mut WN_CHILD1: [u64; 3] = [0; 3];
pub(crate) static mut RM_N: usize = 0;
pub(crate) static mut RM_ADDR: u64 = 0;
pub(crate) fn stub_fetch_root<L: LogQuery>(_root: Address, _tables: TablesRef, _log: &L) -> Result<Node> {
	let mut n = Node::default();
	n.changed = false;
	Ok(n)
}
pub(crate) fn stub_change(
	this: &mut Node,
	_parent: Option<(&mut Node, usize)>,
	_depth: u32,
	_changes: &mut &[Operation<RcKey, RcValue>],
	_btree: TablesRef,
	_log: &mut LogWriter,
) -> Result<(Option<(Separator, Child)>, bool)> {
	match unsafe { CHANGE_OUT } {
		1 => Ok((
			Some((
				Separator { modified: true, separator: Some(SeparatorInner { key: vec![9u8], value: Address::from_u64(777) }) },
				Node::new_child(Some(Address::from_u64(888))),
			)),
			false,
		)),
		2 => Ok((None, true)),
		_ => Ok((None, false)),
	}
}
pub(crate) fn stub_need_remove_root(_this: &mut Node, _values: TablesRef, _log: &mut LogWriter) -> Result<Option<(Option<Address>, Node)>> {
	if unsafe { COLLAPSE } {
		let mut n = Node::default();
		n.changed = false;
		Ok(Some((Some(Address::from_u64(unsafe { COLLAPSE_CHILD })), n)))
	} else {
		Ok(None)
	}
}
fn tag(o: Option<Address>) -> u64 {
	match o {
		Some(a) => a.as_u64(),
		None => 0,
	}
}
pub(crate) fn stub_write_node_plan(_tables: TablesRef, node: Node, _writer: &mut LogWriter, node_id: Option<Address>) -> Result<Option<Address>> {
	unsafe {
		assert!(WN_N < 3, "verif: too many node writes");
		WN_OLD[WN_N] = tag(node_id);
		WN_ROOTSEP[WN_N] = tag(node.separator_address(0));
		WN_CHILD0[WN_N] = tag(node.children[0].entry_index);
		WN_CHILD1[WN_N] = tag(node.children[1].entry_index);
		let r = if tag(node_id) == 0 && WN_RET[WN_N] == 0 { 4242 } else { WN_RET[WN_N] };
		WN_RET[WN_N] = r;
		WN_N += 1;
		std::mem::forget(node);
		Ok(if r == 0 { None } else { Some(Address::from_u64(r)) })
	}
}
pub(crate) static mut RM_ADDRS: [u64; 3] = [0; 3];
pub(crate) fn stub_remove_node(_tables: TablesRef, _writer: &mut LogWriter, node_index: Address) -> Result<()> {
	unsafe {
		if RM_N < 3 {
			RM_ADDRS[RM_N] = node_index.as_u64();
		}
		RM_N += 1;
		RM_ADDR = node_index.as_u64();
	}
	Ok(())
}
// a batch that makes the tree lose two levels: every call of Node::change reports a possible collapse, need_remove_root
// collapses the root each time, onto the children COLLAPSE_CHILDREN[0] and then [1]
pub(crate) static mut COLLAPSE_N: usize = 0;
pub(crate) static mut COLLAPSE_CHILDREN: [u64; 2] = [0; 2];
pub(crate) fn stub_change_collapsing(this: &mut Node, _parent: Option<(&mut Node, usize)>, _depth: u32, _changes: &mut &[Operation<RcKey, RcValue>], _btree: TablesRef, _log: &mut LogWriter) -> Result<(Option<(Separator, Child)>, bool)> {
	Ok((None, true))
}
pub(crate) fn stub_need_remove_root_twice(_this: &mut Node, _values: TablesRef, _log: &mut LogWriter) -> Result<Option<(Option<Address>, Node)>> {
	unsafe {
		if COLLAPSE_N < 2 {
			let c = COLLAPSE_CHILDREN[COLLAPSE_N];
			COLLAPSE_N += 1;
			let mut n = Node::default();
			n.changed = false;
			Ok(Some((Some(Address::from_u64(c)), n)))
		} else {
			Ok(None)
		}
	}
}

#[kani::proof]
#[kani::unwind(12)]
#[kani::stub(super::BTree::fetch_root, stub_fetch_root)]
#[kani::stub(crate::btree::node::Node::change, stub_change)]
#[kani::stub(crate::btree::node::Node::need_remove_root, stub_need_remove_root)]
#[kani::stub(crate::btree::BTreeTable::write_node_plan, stub_write_node_plan)]
#[kani::stub(crate::btree::BTreeTable::write_plan_remove_node, stub_remove_node)]
#[kani::stub(std::hash::RandomState::new, crate::verif_stubs::random_state_new)]
#[kani::stub(parking_lot::RawRwLock::lock_shared_slow, crate::verif_stubs::lock_shared_slow)]
#[kani::stub(parking_lot::RawRwLock::unlock_shared_slow, crate::verif_stubs::unlock_shared_slow)]
#[kani::stub(parking_lot::RawRwLock::lock_exclusive_slow, crate::verif_stubs::lock_exclusive_slow)]
#[kani::stub(parking_lot::RawRwLock::unlock_exclusive_slow, crate::verif_stubs::unlock_exclusive_slow)]
#[kani::stub(std::fmt::format, crate::verif_stubs::fmt_format)]
fn u23_root_bookkeeping() {
	let old_root: u64 = kani::any();
	let depth: u32 = kani::any();
	kani::assume(depth >= 1 && depth < 100);
	let out: u8 = kani::any();
	kani::assume(out <= 2);
	unsafe {
		CHANGE_OUT = out;
		COLLAPSE = kani::any();
		COLLAPSE_CHILD = kani::any();
		WN_N = 0;
		WN_RET = [kani::any(), kani::any(), kani::any()];
		RM_N = 0;
	}
	kani::assume(unsafe { COLLAPSE_CHILD } != 0);
	let mut tree = BTree::new(if old_root == 0 { None } else { Some(Address::from_u64(old_root)) }, depth, 7);
	let tables: [crate::table::ValueTable; 0] = [];
	let no = crate::compress::Compress::new(crate::compress::CompressionType::NoCompression, u32::MAX);
	let tr = TablesRef { tables: &tables, compression: &no, col: 0, preimage: false, ref_counted: false };
	let overlays: &'static crate::parking_lot::RwLock<crate::log::LogOverlays> = Box::leak(Box::new(crate::parking_lot::RwLock::new(crate::log::LogOverlays::with_columns(0))));
	let w: &'static mut LogWriter<'static> = Box::leak(Box::new(LogWriter::new(overlays, 7)));
	let key: RcKey = Vec::new().into();
	let changes: [Operation<RcKey, RcValue>; 1] = [Operation::Dereference(key)];
	let r = ok(tree.write_sorted_changes(&changes, tr, &mut *w));
	assert!(r.is_some(), "U23.no_error");
	let (wn, rm) = unsafe { (WN_N, RM_N) };
	if out == 1 {
		// root split: the tree grows by one level; the old root is written (it keeps or gets an address) and becomes
		// child 0 of a new root whose only separator is the lifted one and whose child 1 is the new right node
		assert!(tree.depth == depth + 1, "U23.split.depth_grows_by_one");
		assert!(wn == 2 && unsafe { WN_OLD[0] } == old_root, "U23.split.old_root_written_under_its_old_address");
		let left_addr = if unsafe { WN_RET[0] } != 0 { unsafe { WN_RET[0] } } else { old_root };
		assert!(unsafe { WN_ROOTSEP[1] } == 777, "U23.split.new_root_holds_lifted_separator");
		assert!(unsafe { WN_CHILD0[1] } == left_addr, "U23.split.old_root_is_left_child_of_new_root");
		assert!(unsafe { WN_CHILD1[1] } == 888, "U23.split.right_node_is_right_child_of_new_root");
		assert!(unsafe { WN_OLD[1] } == 0, "U23.split.new_root_is_a_new_node");
		assert!(tag(tree.root_index) == unsafe { WN_RET[1] }, "U23.split.root_pointer_names_the_new_root");
		assert!(rm == 0, "U23.split.nothing_released");
	} else if out == 2 && unsafe { COLLAPSE } {
		// root collapse: the tree shrinks by one level, the only child becomes the root and the old root node is released
		assert!(tree.depth == depth - 1, "U23.collapse.depth_shrinks_by_one");
		assert!(tag(tree.root_index) == unsafe { COLLAPSE_CHILD }, "U23.collapse.only_child_becomes_root");
		assert!(rm == if old_root != 0 { 1 } else { 0 }, "U23.collapse.old_root_node_released_exactly_once");
		if old_root != 0 {
			assert!(unsafe { RM_ADDR } == old_root, "U23.collapse.released_node_is_the_old_root");
		}
		assert!(wn == 0, "U23.collapse.unchanged_new_root_not_rewritten");
	} else {
		assert!(tree.depth == depth && rm == 0 && wn == 0 && tag(tree.root_index) == old_root, "U23.noop.nothing_changes_at_the_root");
	}
	kani::cover!(out == 1 && old_root != 0, "split of an existing root");
	kani::cover!(out == 2 && unsafe { COLLAPSE } && old_root != 0, "collapse");
	std::mem::forget(changes);
}


#[kani::proof]
#[kani::unwind(12)]
#[kani::stub(super::BTree::fetch_root, stub_fetch_root)]
#[kani::stub(crate::btree::node::Node::change, stub_change_collapsing)]
#[kani::stub(crate::btree::node::Node::need_remove_root, stub_need_remove_root_twice)]
#[kani::stub(crate::btree::BTreeTable::write_node_plan, stub_write_node_plan)]
#[kani::stub(crate::btree::BTreeTable::write_plan_remove_node, stub_remove_node)]
#[kani::stub(std::hash::RandomState::new, crate::verif_stubs::random_state_new)]
#[kani::stub(parking_lot::RawRwLock::lock_shared_slow, crate::verif_stubs::lock_shared_slow)]
#[kani::stub(parking_lot::RawRwLock::unlock_shared_slow, crate::verif_stubs::unlock_shared_slow)]
#[kani::stub(parking_lot::RawRwLock::lock_exclusive_slow, crate::verif_stubs::lock_exclusive_slow)]
#[kani::stub(parking_lot::RawRwLock::unlock_exclusive_slow, crate::verif_stubs::unlock_exclusive_slow)]
#[kani::stub(std::fmt::format, crate::verif_stubs::fmt_format)]
fn u23_two_collapses_in_one_batch() {
	let old_root: u64 = kani::any();
	let (a, b): (u64, u64) = (kani::any(), kani::any());
	kani::assume(old_root != 0 && a != 0 && b != 0 && a != old_root && b != old_root && a != b);
	let depth: u32 = kani::any();
	kani::assume(depth >= 2 && depth < 100);
	unsafe {
		COLLAPSE_N = 0;
		COLLAPSE_CHILDREN = [a, b];
		WN_N = 0;
		WN_RET = [0; 3];
		RM_N = 0;
		RM_ADDRS = [0; 3];
	}
	let mut tree = BTree::new(Some(Address::from_u64(old_root)), depth, 7);
	let tables: [crate::table::ValueTable; 0] = [];
	let no = crate::compress::Compress::new(crate::compress::CompressionType::NoCompression, u32::MAX);
	let tr = TablesRef { tables: &tables, compression: &no, col: 0, preimage: false, ref_counted: false };
	let overlays: &'static crate::parking_lot::RwLock<crate::log::LogOverlays> = Box::leak(Box::new(crate::parking_lot::RwLock::new(crate::log::LogOverlays::with_columns(0))));
	let w: &'static mut LogWriter<'static> = Box::leak(Box::new(LogWriter::new(overlays, 7)));
	let k1: RcKey = Vec::new().into();
	let k2: RcKey = Vec::new().into();
	let changes: [Operation<RcKey, RcValue>; 2] = [Operation::Dereference(k1), Operation::Dereference(k2)];
	let r = ok(tree.write_sorted_changes(&changes, tr, &mut *w));
	assert!(r.is_some(), "U23.no_error");
	// the tree lost two levels: both root nodes that were emptied are released, each once, none is left allocated and unreachable
	assert!(tree.depth == depth - 2, "U23.collapse.depth_shrinks_by_one_per_collapse");
	assert!(tag(tree.root_index) == b, "U23.collapse.only_child_becomes_root");
	assert!(unsafe { RM_N } == 2, "U23.collapse.every_emptied_root_node_is_released_exactly_once");
	let (r0, r1) = unsafe { (RM_ADDRS[0], RM_ADDRS[1]) };
	assert!((r0 == old_root && r1 == a) || (r0 == a && r1 == old_root), "U23.collapse.every_emptied_root_node_is_released_exactly_once");
	kani::cover!(true, "reached");
	std::mem::forget(changes);
}
