// Appended to /repo/src/index.rs of the scratch copy as a child module (sees private items).
// Units U1 (codec), U2 (page search), U3 (page update), U4 (key recovery), U9-index (validate/enact).
// Function bodies under proof are the ones in /repo; nothing here re-implements them except the
// *specification* functions `spec_*`, which are the postconditions.
#![allow(dead_code, unused_variables, unused_imports, static_mut_refs)]
use super::*;
use crate::verif_stubs as vs;

impl Entry {
	pub(crate) fn from_u64_verif(e: u64) -> Entry {
		Entry::from_u64(e)
	}
}

pub(crate) fn mk_table(col: u8, bits: u8) -> IndexTable {
	IndexTable {
		id: TableId::new(col, bits),
		map: RwLock::new(None),
		path: std::path::PathBuf::new(),
	}
}

fn ok<T>(r: Result<T>) -> Option<T> {
	match r {
		Ok(v) => Some(v),
		Err(e) => {
			std::mem::forget(e);
			None
		},
	}
}

fn any_bits() -> u8 {
	let b: u8 = kani::any();
	kani::assume(b >= 16 && b <= 49);
	b
}

// page word j as a little-endian u64, read directly from the bytes (the specification's view of a page)
fn word(chunk: &Chunk, j: usize) -> u64 {
	let o = j * 8;
	(chunk.0[o] as u64) |
		((chunk.0[o + 1] as u64) << 8) |
		((chunk.0[o + 2] as u64) << 16) |
		((chunk.0[o + 3] as u64) << 24) |
		((chunk.0[o + 4] as u64) << 32) |
		((chunk.0[o + 5] as u64) << 40) |
		((chunk.0[o + 6] as u64) << 48) |
		((chunk.0[o + 7] as u64) << 56)
}

// ---- specification predicates of U2 (DESIGN §3 U2)
fn spec_exact(e: u64, k: u64, b: u8) -> bool {
	let ab = (b as u32) + 14;
	e != 0 && (e >> ab) == ((k << (b as u32)) >> ab)
}
fn spec_fast_shift(b: u8) -> u32 {
	let ab = (b as u32) + 14;
	if ab > 32 {
		ab
	} else {
		32
	}
}
fn spec_fast_pat(k: u64, b: u8) -> u32 {
	((k << (b as u32)) >> spec_fast_shift(b)) as u32
}
fn spec_fast(e: u64, k: u64, b: u8) -> bool {
	((e >> spec_fast_shift(b)) as u32) == spec_fast_pat(k, b)
}

// ================================================================== U1: codec
#[kani::proof]
fn u1_entry_codec() {
	let b = any_bits();
	let a: u64 = kani::any();
	let pk: u64 = kani::any();
	kani::assume(a <= Entry::last_address(b));
	kani::assume(pk < (1u64 << (50 - b as u32)));
	assert!(Entry::address_bits(b) as u32 == b as u32 + 14);
	assert!(Entry::last_address(b) == (1u64 << (b as u32 + 14)) - 1);
	let e = Entry::new(Address::from_u64(a), pk, b);
	assert!(e.address(b).as_u64() == a, "U1.entry.address_roundtrip");
	assert!(e.partial_key(b) == pk, "U1.entry.partial_key_roundtrip");
	assert!(e.is_empty() == (a == 0 && pk == 0), "U1.entry.empty_iff_zero");
	assert!(Entry::from_u64(e.as_u64()) == e);
	assert!(Entry::empty().is_empty() && Entry::empty().as_u64() == 0);
	kani::cover!(a != 0 && pk != 0, "nonzero entry");
	kani::cover!(b == 49 && pk == 1, "largest index size");
}

#[kani::proof]
fn u1_extract_key_slices() {
	let b = any_bits();
	let k: u64 = kani::any();
	let t = mk_table(0, b);
	let ci = t.chunk_index(k);
	let pk = Entry::extract_key(k, b);
	// chunk index = top b bits, partial key = next 50-b bits, the low 14 bits are dropped
	assert!(ci == k >> (64 - b as u32), "U1.chunk_index_is_top_bits");
	assert!(ci < (1u64 << b as u32), "U1.chunk_index_in_range");
	assert!(pk == (k >> 14) & ((1u64 << (50 - b as u32)) - 1), "U1.extract_key_is_next_bits");
	assert!(pk < (1u64 << (50 - b as u32)), "U1.extract_key_in_range");
	assert!((ci << (50 - b as u32)) | pk == k >> 14, "U1.index_and_partial_partition_top50");
	kani::cover!(pk != 0 && ci != 0);
}

#[kani::proof]
fn u1_address_codec() {
	let o: u64 = kani::any();
	let t: u8 = kani::any();
	kani::assume(o < (1u64 << 56));
	let a = Address::new(o, t);
	assert!(a.offset() == o, "U1.address.offset_roundtrip");
	assert!(a.size_tier() == t, "U1.address.tier_roundtrip");
	assert!(Address::from_u64(a.as_u64()) == a);
	let raw: u64 = kani::any();
	let r = Address::from_u64(raw);
	assert!(Address::new(r.offset(), r.size_tier()).as_u64() == raw, "U1.address.decode_encode");
	kani::cover!(o == (1u64 << 56) - 1 && t == 255);
}

#[kani::proof]
fn u1_table_id() {
	let c: u8 = kani::any();
	let b: u8 = kani::any();
	let id = TableId::new(c, b);
	assert!(id.col() == c, "U1.tableid.col");
	assert!(id.index_bits() == b, "U1.tableid.bits");
	assert!(TableId::from_u16(id.as_u16()) == id);
	if b < 48 {
		assert!(TableId::from_log_index(id.log_index()) == id, "U1.tableid.log_index_roundtrip");
		assert!(id.log_index() < TableId::max_log_indicies(c as usize + 1), "U1.tableid.log_index_in_range");
	}
	if b >= 16 && b <= 49 {
		assert!(id.total_chunks() == 1u64 << b as u32);
		assert!(id.total_entries() == 64u64 << b as u32);
		assert!(file_size(b) == (512u64 << b as u32) + 16384, "U1.file_size");
	}
	kani::cover!(b == 47 && c == 255);
}

// slot index concrete per generated harness (64 is a program constant), contents symbolic
fn run_write_read_entry(i: usize) {
	let base = Chunk(kani::any());
	let j: usize = kani::any();
	kani::assume(j < 64);
	// read_entry is the little-endian word; transmute_chunk agrees with it
	assert!(IndexTable::read_entry(&base, i).as_u64() == word(&base, i), "U1.read_entry_is_le_word");
	assert!(IndexTable::transmute_chunk(&base)[i].as_u64() == word(&base, i), "U1.transmute_is_le_word");
	let mut chunk = base.clone();
	let v: u64 = kani::any();
	IndexTable::write_entry(&Entry::from_u64(v), i, &mut chunk);
	assert!(IndexTable::read_entry(&chunk, i).as_u64() == v, "U1.write_then_read");
	assert!(word(&chunk, i) == v, "U1.write_entry_is_le_word");
	if j != i {
		assert!(word(&chunk, j) == word(&base, j), "U1.write_entry_frame");
	}
	let q: usize = kani::any();
	kani::assume(q < 512 && (q < i * 8 || q >= i * 8 + 8));
	assert!(chunk.0[q] == base.0[q], "U1.write_entry_byte_frame");
}
macro_rules! wr_harness {
	($name:ident, $i:expr) => {
		#[kani::proof]
		fn $name() {
			run_write_read_entry($i);
		}
	};
}

// ================================================================== U2: page search
// Contract R1-R4 checked after one call; `p` concrete per harness, everything else symbolic.
fn check_search_contract(k: u64, b: u8, p: usize, chunk: &Chunk, e: Entry, i: usize, base: bool) {
	let hit = !e.is_empty();
	// universally quantified slot j in [p, 64) (a guard, not an assumption: p == 64 leaves no such slot)
	let j: usize = kani::any();
	let j_in_range = j >= p && j < 64;
	let wj = if j_in_range { word(chunk, j) } else { 0 };
	if hit {
		assert!(i >= p && i < 64, "U2.R1.hit_position_in_range");
		assert!(e.as_u64() == word(chunk, i), "U2.R1.hit_is_the_slot_content");
		assert!(spec_fast(e.as_u64(), k, b), "U2.R1.hit_agrees_on_fast_bits");
		if base {
			assert!(spec_exact(e.as_u64(), k, b), "U2.R1.base_hit_is_exact");
		}
		if j_in_range && j < i {
			assert!(!spec_exact(wj, k, b), "U2.R2.no_exact_match_skipped_before_hit");
			if !base && spec_fast_pat(k, b) != 0 {
				assert!(!spec_fast(wj, k, b), "U2.R3.hit_is_first_fast_match");
			}
		}
	} else {
		assert!(i == 0 && e.as_u64() == 0, "U2.R4.miss_is_empty_zero");
		if j_in_range {
			assert!(!spec_exact(wj, k, b), "U2.R2.miss_means_no_exact_match");
			if !base && spec_fast_pat(k, b) != 0 {
				assert!(!spec_fast(wj, k, b), "U2.R3.miss_means_no_fast_match");
			}
		}
	}
}

fn run_base(p: usize) {
	let b = any_bits();
	let t = mk_table(0, b);
	let chunk = Chunk(kani::any());
	let k: u64 = kani::any();
	let (e, i) = t.find_entry_base(k, p, &chunk);
	check_search_contract(k, b, p, &chunk, e, i, true);
	kani::cover!(!e.is_empty() && i > p, "opt: hit after start");
	kani::cover!(e.is_empty(), "miss");
}

#[cfg(target_arch = "x86_64")]
fn run_sse2(p: usize) {
	let b = any_bits();
	let t = mk_table(0, b);
	let chunk = Chunk(kani::any());
	let k: u64 = kani::any();
	let (e, i) = t.find_entry_sse2(k, p, &chunk);
	check_search_contract(k, b, p, &chunk, e, i, false);
	kani::cover!(!e.is_empty() && spec_fast_pat(k, b) != 0, "opt: vector hit");
	kani::cover!(e.is_empty() && spec_fast_pat(k, b) != 0, "vector miss");
	kani::cover!(spec_fast_pat(k, b) == 0, "zero-pattern fallback");
}

#[cfg(target_arch = "x86_64")]
fn run_find_entry(p: usize) {
	let b = any_bits();
	let t = mk_table(0, b);
	let chunk = Chunk(kani::any());
	let k: u64 = kani::any();
	let (e, i) = t.find_entry(k, p, &chunk);
	check_search_contract(k, b, p, &chunk, e, i, false);
	kani::cover!(!e.is_empty(), "opt: hit");
	kani::cover!(e.is_empty(), "miss");
}

macro_rules! base_harness {
	($name:ident, $p:expr) => {
		#[kani::proof]
		#[kani::unwind(66)]
		#[kani::solver(kissat)]
		fn $name() {
			run_base($p);
		}
	};
}
macro_rules! sse2_harness {
	($name:ident, $p:expr) => {
		#[cfg(target_arch = "x86_64")]
		#[kani::proof]
		#[kani::unwind(66)]
		#[kani::solver(kissat)]
		#[kani::stub(std::arch::x86_64::_mm_srl_epi64, crate::verif_stubs::mm_srl_epi64)]
		fn $name() {
			run_sse2($p);
		}
	};
}
macro_rules! find_entry_harness {
	($name:ident, $p:expr) => {
		#[cfg(target_arch = "x86_64")]
		#[kani::proof]
		#[kani::unwind(66)]
		#[kani::solver(kissat)]
		#[kani::stub(std::arch::x86_64::_mm_srl_epi64, crate::verif_stubs::mm_srl_epi64)]
		fn $name() {
			run_find_entry($p);
		}
	};
}
/*@@GENERATED:index@@*/

// lemma exact => fast (hence R2 follows from R3 on the vector path)
#[kani::proof]
fn u2_lemma_exact_implies_fast() {
	let b = any_bits();
	let e: u64 = kani::any();
	let k: u64 = kani::any();
	if spec_exact(e, k, b) {
		assert!(spec_fast(e, k, b), "U2.lemma.exact_implies_fast");
	}
	// and the exact predicate is what Entry::partial_key/extract_key compute
	assert!(
		spec_exact(e, k, b) ==
			(e != 0 && Entry::from_u64(e).partial_key(b) == Entry::extract_key(k, b)),
		"U2.lemma.exact_is_partial_key_equality"
	);
}

// canary: the same preconditions with a false postcondition must be refuted
#[kani::proof]
#[kani::unwind(66)]
fn canary_u2_base() {
	let b = any_bits();
	let t = mk_table(0, b);
	let chunk = Chunk(kani::any());
	let k: u64 = kani::any();
	let (e, _i) = t.find_entry_base(k, 3, &chunk);
	assert!(e.is_empty(), "CANARY");
}

// ================================================================== U4: key recovery
fn any_key() -> Key {
	kani::any()
}

#[kani::proof]
fn u4_reindex() {
	let b = any_bits();
	let b2 = any_bits();
	kani::assume(b <= b2);
	let key = any_key();
	let addr: u64 = kani::any();
	kani::assume(addr <= Entry::last_address(b));
	let src = mk_table(0, b);
	let dst = mk_table(0, b2);
	let kp = TableKey::index_from_partial(&key);
	let e = Entry::new(Address::from_u64(addr), Entry::extract_key(kp, b), b);
	let ci = src.chunk_index(kp);
	let r = src.recover_key_prefix(ci, e);
	let rp = TableKey::index_from_partial(&r);
	assert!(dst.chunk_index(rp) == dst.chunk_index(kp), "U4.reindex.same_page_in_larger_index");
	assert!(
		Entry::extract_key(rp, b2) == Entry::extract_key(kp, b2),
		"U4.reindex.same_partial_key_in_larger_index"
	);
	assert!(e.address(b).as_u64() == addr, "U4.reindex.address_preserved");
	// the recovered prefix is exactly the top 50 bits of the original prefix
	assert!(rp == (kp >> 14) << 14, "U4.recover_is_top_50_bits");
	let q: usize = kani::any();
	kani::assume(q >= 8 && q < 32);
	assert!(r[q] == 0, "U4.recover_tail_zero");
	kani::cover!(b < b2 && kp != 0);
	kani::cover!(b == b2);
}

#[kani::proof]
fn u4_migrate() {
	let b = any_bits();
	let key = any_key();
	let addr: u64 = kani::any();
	kani::assume(addr <= Entry::last_address(b));
	let src = mk_table(0, b);
	let kp = TableKey::index_from_partial(&key);
	let e = Entry::new(Address::from_u64(addr), Entry::extract_key(kp, b), b);
	let mut r = src.recover_key_prefix(src.chunk_index(kp), e);
	// what iter_index_internal does with the key tail stored in the value entry
	let tail = crate::table::key::partial_key(&key);
	assert!(tail.len() == crate::table::key::PARTIAL_SIZE, "U4.tail_len");
	r[6..].copy_from_slice(tail);
	let q: usize = kani::any();
	kani::assume(q < 32);
	assert!(r[q] == key[q], "U4.migrate.full_key_recovered");
}

#[kani::proof]
fn canary_u4() {
	let b = any_bits();
	let key = any_key();
	let src = mk_table(0, b);
	let kp = TableKey::index_from_partial(&key);
	let e = Entry::new(Address::from_u64(0), Entry::extract_key(kp, b), b);
	let r = src.recover_key_prefix(src.chunk_index(kp), e);
	assert!(r[7] == key[7], "CANARY");
}

// ================================================================== U3: page update
pub(crate) static mut REC_N: usize = 0;
pub(crate) static mut REC_TABLE: u16 = 0;
pub(crate) static mut REC_INDEX: u64 = 0;
pub(crate) static mut REC_SUB: u8 = 0;
pub(crate) static mut REC_CHUNK: [u8; 512] = [0u8; 512];

pub(crate) fn rec_insert_index<'a>(_w: &mut LogWriter<'a>, table: TableId, index: u64, sub: u8, data: Chunk)
where
	'a: 'a,
{
	unsafe {
		REC_N += 1;
		REC_TABLE = table.as_u16();
		REC_INDEX = index;
		REC_SUB = sub;
		REC_CHUNK = data.0;
	}
}

fn rec_reset() {
	unsafe {
		REC_N = 0;
	}
}

macro_rules! logwriter_harness {
	($name:ident, $body:expr) => {
		#[kani::proof]
		#[kani::unwind(66)]
		#[kani::solver(kissat)]
		#[kani::stub(crate::log::LogWriter::insert_index, rec_insert_index)]
		#[kani::stub(std::hash::RandomState::new, crate::verif_stubs::random_state_new)]
		#[kani::stub(parking_lot::RawRwLock::lock_shared_slow, crate::verif_stubs::lock_shared_slow)]
		#[kani::stub(parking_lot::RawRwLock::unlock_shared_slow, crate::verif_stubs::unlock_shared_slow)]
		#[kani::stub(parking_lot::RawRwLock::lock_exclusive_slow, crate::verif_stubs::lock_exclusive_slow)]
		#[kani::stub(parking_lot::RawRwLock::unlock_exclusive_slow, crate::verif_stubs::unlock_exclusive_slow)]
		#[kani::stub(std::fmt::format, crate::verif_stubs::fmt_format)]
		fn $name() {
			$body
		}
	};
}

fn u3_insert_body(mode: u8, slot: usize) {
	// mode 0: sub_index None; mode 1: sub_index Some(slot)  (slot concrete per generated harness)
	let b = any_bits();
	let t = mk_table(3, b);
	let chunk = Chunk(kani::any());
	let old = chunk.clone();
	let k: u64 = kani::any();
	let addr: u64 = kani::any();
	let overlays = RwLock::new(crate::log::LogOverlays::with_columns(0));
	let mut w = LogWriter::new(&overlays, 7);
	rec_reset();
	let sub = if mode == 1 {
		let i: usize = slot;
		// caller obligation (the exec assert_eq!) : the slot being replaced carries the key's partial key
		kani::assume(
			addr > Entry::last_address(b) ||
				Entry::from_u64(word(&chunk, i)).partial_key(b) == Entry::extract_key(k, b),
		);
		Some(i)
	} else {
		None
	};
	let r = ok(t.plan_insert_chunk(k, Address::from_u64(addr), chunk, sub, &mut w));
	let n = unsafe { REC_N };
	let j: usize = kani::any();
	kani::assume(j < 64);
	match r {
		Some(PlanOutcome::NeedReindex) => {
			assert!(n == 0, "U3.insert.need_reindex_writes_nothing");
			if addr <= Entry::last_address(b) {
				assert!(mode == 0, "U3.insert.replace_never_needs_reindex_unless_overflow");
				assert!(word(&old, j) != 0, "U3.insert.need_reindex_only_if_page_full");
			}
			kani::cover!(addr > Entry::last_address(b), "address overflow");
			kani::cover!(addr <= Entry::last_address(b), "opt: page full");
		},
		Some(PlanOutcome::Written) => {
			assert!(addr <= Entry::last_address(b), "U3.insert.address_overflow_never_written");
			assert!(n == 1, "U3.insert.exactly_one_log_record");
			let (rt, ri, rs, rc) = unsafe { (REC_TABLE, REC_INDEX, REC_SUB as usize, Chunk(REC_CHUNK)) };
			assert!(rt == t.id.as_u16(), "U3.insert.logged_table");
			assert!(ri == t.chunk_index(k), "U3.insert.logged_page_is_keys_page");
			assert!(rs < 64);
			let expect = Entry::new(Address::from_u64(addr), Entry::extract_key(k, b), b).as_u64();
			assert!(word(&rc, rs) == expect, "U3.insert.slot_holds_new_entry");
			assert!(Entry::from_u64(word(&rc, rs)).address(b).as_u64() == addr, "U3.insert.address_readable");
			if j != rs {
				assert!(word(&rc, j) == word(&old, j), "U3.insert.frame_other_slots_unchanged");
			}
			match sub {
				Some(i) => assert!(rs == i, "U3.insert.replace_touches_only_confirmed_slot"),
				None => {
					assert!(word(&old, rs) == 0, "U3.insert.never_overwrites_live_slot");
					// (which of the empty slots is taken is a layout policy the properties do not fix: not asserted)
				},
			}
			kani::cover!(rs > 0, "opt: written beyond slot 0");
		},
		_ => assert!(false, "U3.insert.no_other_outcome"),
	}
}

logwriter_harness!(u3_insert_new, u3_insert_body(0, 0));

fn u3_remove_body(slot: usize) {
	let b = any_bits();
	let t = mk_table(3, b);
	let chunk = Chunk(kani::any());
	let old = chunk.clone();
	let k: u64 = kani::any();
	let i: usize = slot;
	let overlays = RwLock::new(crate::log::LogOverlays::with_columns(0));
	let mut w = LogWriter::new(&overlays, 7);
	rec_reset();
	let r = ok(t.plan_remove_chunk(k, chunk, i, &mut w));
	let n = unsafe { REC_N };
	let wi = word(&old, i);
	let should = wi != 0 && Entry::from_u64(wi).partial_key(b) == Entry::extract_key(k, b);
	let j: usize = kani::any();
	kani::assume(j < 64);
	match r {
		Some(PlanOutcome::Written) => {
			assert!(should, "U3.remove.only_matching_live_slot_removed");
			assert!(n == 1, "U3.remove.exactly_one_log_record");
			let (rt, ri, rs, rc) = unsafe { (REC_TABLE, REC_INDEX, REC_SUB as usize, Chunk(REC_CHUNK)) };
			assert!(rt == t.id.as_u16() && ri == t.chunk_index(k) && rs == i, "U3.remove.logged_location");
			assert!(word(&rc, i) == 0, "U3.remove.slot_zeroed");
			if j != i {
				assert!(word(&rc, j) == word(&old, j), "U3.remove.frame_other_slots_unchanged");
			}
		},
		Some(PlanOutcome::Skipped) => {
			assert!(!should, "U3.remove.matching_slot_not_skipped");
			assert!(n == 0, "U3.remove.skip_writes_nothing");
		},
		_ => assert!(false, "U3.remove.no_other_outcome"),
	}
	kani::cover!(should, "remove hit");
	kani::cover!(!should && wi != 0, "remove mismatch on live slot");
}
/*@@GENERATED:index3@@*/

logwriter_harness!(canary_u3, {
	let b = any_bits();
	let t = mk_table(3, b);
	let chunk = Chunk(kani::any());
	let k: u64 = kani::any();
	let addr: u64 = kani::any();
	let overlays = RwLock::new(crate::log::LogOverlays::with_columns(0));
	let mut w = LogWriter::new(&overlays, 7);
	rec_reset();
	let r = ok(t.plan_insert_chunk(k, Address::from_u64(addr), chunk, None, &mut w));
	assert!(unsafe { REC_N } == 0, "CANARY");
});

// ================================================================== U9 (index table): log-record validation
macro_rules! reader_harness {
	($(#[$m:meta])* $name:ident, $body:expr) => {
		#[kani::proof]
		$(#[$m])*
		#[kani::stub(crate::log::LogReader::read, crate::log::verif_log::stub_read)]
		#[kani::stub(crc32fast::Hasher::new, crate::verif_stubs::crc_hasher_new)]
		#[kani::stub(parking_lot::RawRwLock::lock_shared_slow, crate::verif_stubs::lock_shared_slow)]
		#[kani::stub(parking_lot::RawRwLock::unlock_shared_slow, crate::verif_stubs::unlock_shared_slow)]
		#[kani::stub(parking_lot::RawRwLock::lock_exclusive_slow, crate::verif_stubs::lock_exclusive_slow)]
		#[kani::stub(parking_lot::RawRwLock::unlock_exclusive_slow, crate::verif_stubs::unlock_exclusive_slow)]
		#[kani::stub(std::fmt::format, crate::verif_stubs::fmt_format)]
		fn $name() {
			$body
		}
	};
}
// popcount class `k` concrete (bit positions symbolic): the mask walk runs exactly k times
fn u9_index_body(k: u32) {
	use crate::log::verif_log as vl;
	let mask: u64 = kani::any();
	kani::assume(mask.count_ones() == k);
	let fail_at: usize = kani::any();
	vl::reader_reset(mask.to_le_bytes(), fail_at);
	let b = any_bits();
	let t = mk_table(1, b);
	let index: u64 = kani::any();
	let mut r = vl::mk_reader();
	let v = ok(t.validate_plan(index, &mut r));
	let (calls, bytes, maxlen) = vl::reader_stats();
	if v.is_some() {
		// the chunk named by an accepted record lies inside the index file (what enact_plan writes: 512 bytes at 16384 + 512*index)
		assert!(index < (1u64 << b as u32), "U9.index.validated_chunk_in_file");
		assert!(16384 + 512 * index + 512 <= file_size(b), "U9.index.validated_write_inside_mapping");
		assert!(calls == 1 + k as usize && bytes == 8 + 8 * k as u64, "U9.index.consumes_mask_plus_one_entry_per_set_bit");
		assert!(calls <= fail_at, "U9.index.ok_only_if_every_read_succeeded");
	} else {
		assert!(index >= (1u64 << b as u32) || fail_at <= k as usize, "U9.index.rejects_only_bad_chunk_or_short_record");
	}
	assert!(maxlen <= 8, "U9.index.reads_are_entry_sized");
	// skipping a record (other column / stale table) consumes the same bytes
	vl::reader_reset(mask.to_le_bytes(), usize::MAX);
	let s = ok(IndexTable::skip_plan(&mut r));
	let (calls2, bytes2, _m) = vl::reader_stats();
	assert!(s.is_some() && calls2 == 1 + k as usize && bytes2 == 8 + 8 * k as u64, "U9.index.skip_consumes_the_same_bytes");
	kani::cover!(v.is_some(), "record accepted");
	kani::cover!(v.is_none() && index < (1u64 << b as u32), "short record rejected");
	std::mem::forget(r);
}
reader_harness!(#[kani::unwind(3)] canary_u9_index, {
	use crate::log::verif_log as vl;
	vl::reader_reset([0u8; 8], usize::MAX);
	let t = mk_table(1, any_bits());
	let mut r = vl::mk_reader();
	let v = ok(t.validate_plan(kani::any(), &mut r));
	assert!(v.is_none(), "CANARY");
	std::mem::forget(r);
});
/*@@GENERATED:index2@@*/

// ================================================================== U2b: lifting of page search / page update through the log view
// LogWriter::with_index by contract: "the page of (table, chunk) in the log view, if any" (ghost page OV_PAGE)
pub(crate) static mut OV_PRESENT: bool = false;
pub(crate) static mut OV_PAGE: [u8; 512] = [0u8; 512];
pub(crate) static mut OV_TABLE: u16 = 0;
pub(crate) static mut OV_CHUNK: u64 = 0;
pub(crate) static mut OV_CALLS: usize = 0;
// a log view implementing the LogQuery contract for index pages: "the page of (table, chunk), if the view has one"
pub(crate) struct GhostLog;
impl LogQuery for GhostLog {
	type ValueRef<'a> = &'a [u8];
	fn with_index<R, F: FnOnce(&Chunk) -> R>(&self, table: TableId, index: u64, f: F) -> Option<R> {
		unsafe {
			OV_CALLS += 1;
			OV_TABLE = table.as_u16();
			OV_CHUNK = index;
			if OV_PRESENT {
				let c = Chunk(OV_PAGE);
				Some(f(&c))
			} else {
				None
			}
		}
	}
	fn value(&self, _table: crate::table::TableId, _index: u64, _dest: &mut [u8]) -> bool {
		panic!("verif: not an index operation")
	}
	fn value_ref<'a>(&'a self, _table: crate::table::TableId, _index: u64) -> Option<Self::ValueRef<'a>> {
		panic!("verif: not an index operation")
	}
	fn ref_count<R, F: FnOnce(&crate::ref_count::Chunk) -> R>(&self, _table: crate::ref_count::RefCountTableId, _index: u64, _f: F) -> Option<R> {
		panic!("verif: not an index operation")
	}
}
macro_rules! lift_harness {
	($(#[$m:meta])* $name:ident, $body:expr) => {
		#[kani::proof]
		#[kani::unwind(66)]
		#[kani::solver(kissat)]
		$(#[$m])*
		#[kani::stub(crate::log::LogWriter::insert_index, rec_insert_index)]
		#[kani::stub(std::arch::x86_64::_mm_srl_epi64, crate::verif_stubs::mm_srl_epi64)]
		#[kani::stub(std::hash::RandomState::new, crate::verif_stubs::random_state_new)]
		#[kani::stub(parking_lot::RawRwLock::lock_shared_slow, crate::verif_stubs::lock_shared_slow)]
		#[kani::stub(parking_lot::RawRwLock::unlock_shared_slow, crate::verif_stubs::unlock_shared_slow)]
		#[kani::stub(parking_lot::RawRwLock::lock_exclusive_slow, crate::verif_stubs::lock_exclusive_slow)]
		#[kani::stub(parking_lot::RawRwLock::unlock_exclusive_slow, crate::verif_stubs::unlock_exclusive_slow)]
		#[kani::stub(std::fmt::format, crate::verif_stubs::fmt_format)]
		fn $name() {
			$body
		}
	};
}
fn u2b_get_body(p: usize) {
	let b = any_bits();
	let t = mk_table(2, b);
	let key: Key = kani::any();
	let present: bool = kani::any();
	let page: [u8; 512] = kani::any();
	unsafe {
		OV_PRESENT = present;
		OV_PAGE = page;
		OV_CALLS = 0;
	}
	let w = GhostLog;
	let r = ok(t.get(&key, p, &w));
	let kp = TableKey::index_from_partial(&key);
	match r {
		None => assert!(false, "U2b.get.no_error"),
		Some((e, i)) => {
			assert!(unsafe { OV_CALLS } == 1 && unsafe { OV_TABLE } == t.id.as_u16() && unsafe { OV_CHUNK } == t.chunk_index(kp), "U2b.get.consults_the_keys_page_of_this_table");
			if present {
				// the page searched is the log view's page, with the key's prefix and the requested start position
				let c = Chunk(page);
				let (e2, i2) = t.find_entry(kp, p, &c);
				assert!(e.as_u64() == e2.as_u64() && i == i2, "U2b.get.is_the_page_search_on_the_log_views_page");
			} else {
				// no page in the log view and no file yet: the index is empty
				assert!(e.is_empty() && i == 0, "U2b.get.empty_when_no_page_exists");
			}
		},
	}
	kani::cover!(present, "page in the log view");
	kani::cover!(!present, "no page");
}
lift_harness!(u2b_get_p0, u2b_get_body(0));
lift_harness!(u2b_get_p37, u2b_get_body(37));
lift_harness!(u2b_get_p64, u2b_get_body(64));


