// Appended to /repo/src/lib.rs of the scratch copy as `#[cfg(kani)] pub(crate) mod verif_stubs`.
// The only stubs ever used by the Kani harnesses. Each one is listed in evidence.trusted_base.
#![allow(dead_code, unused_variables, unused_imports)]

// --- PSRLQ: Intel SDM semantics ("Shift Packed Data Right Logical", 128-bit form):
// both 64-bit lanes are shifted right by the low 64 bits of `count`; a count > 63 yields zero.
#[cfg(target_arch = "x86_64")]
pub(crate) unsafe fn mm_srl_epi64(
	a: std::arch::x86_64::__m128i,
	count: std::arch::x86_64::__m128i,
) -> std::arch::x86_64::__m128i {
	let a: [u64; 2] = std::mem::transmute(a);
	let c: [u64; 2] = std::mem::transmute(count);
	let n = c[0];
	let r: [u64; 2] = if n > 63 { [0, 0] } else { [a[0] >> n, a[1] >> n] };
	std::mem::transmute(r)
}

// --- parking_lot slow paths: never reached single-threaded; reaching one fails the proof.
pub(crate) fn lock_shared_slow(
	_l: &parking_lot::RawRwLock,
	_recursive: bool,
	_timeout: Option<std::time::Instant>,
) -> bool {
	panic!("verif: parking_lot slow path reached")
}
pub(crate) fn unlock_shared_slow(_l: &parking_lot::RawRwLock) {
	panic!("verif: parking_lot slow path reached")
}
pub(crate) fn lock_exclusive_slow(
	_l: &parking_lot::RawRwLock,
	_timeout: Option<std::time::Instant>,
) -> bool {
	panic!("verif: parking_lot slow path reached")
}
pub(crate) fn unlock_exclusive_slow(_l: &parking_lot::RawRwLock, _force_fair: bool) {
	panic!("verif: parking_lot slow path reached")
}
pub(crate) fn lock_upgradable_slow(
	_l: &parking_lot::RawRwLock,
	_timeout: Option<std::time::Instant>,
) -> bool {
	panic!("verif: parking_lot slow path reached")
}
pub(crate) fn unlock_upgradable_slow(_l: &parking_lot::RawRwLock, _force_fair: bool) {
	panic!("verif: parking_lot slow path reached")
}
pub(crate) fn upgrade_slow(_l: &parking_lot::RawRwLock, _timeout: Option<std::time::Instant>) -> bool {
	panic!("verif: parking_lot slow path reached")
}
pub(crate) fn downgrade_slow(_l: &parking_lot::RawRwLock) {
	panic!("verif: parking_lot slow path reached")
}
pub(crate) fn downgrade_to_upgradable_slow(_l: &parking_lot::RawRwLock) {
	panic!("verif: parking_lot slow path reached")
}
pub(crate) fn mutex_lock_slow(_m: &parking_lot::RawMutex, _timeout: Option<std::time::Instant>) -> bool {
	panic!("verif: parking_lot slow path reached")
}
pub(crate) fn mutex_unlock_slow(_m: &parking_lot::RawMutex, _force_fair: bool) {
	panic!("verif: parking_lot slow path reached")
}

// --- error text is outside every claim
pub(crate) fn fmt_format(_args: std::fmt::Arguments<'_>) -> String {
	String::new()
}

// --- std RandomState: only so that *empty* HashMaps can be constructed
pub(crate) fn random_state_new() -> std::hash::RandomState {
	unsafe { std::mem::transmute([0u64; 2]) }
}

// --- crc32fast: default constructor runs cpuid
pub(crate) fn crc_hasher_new() -> crc32fast::Hasher {
	crc32fast::Hasher::internal_new_baseline(0, 0)
}

// --- parking_lot Condvar slow paths (parking): unreachable in a single-threaded harness; reaching one fails the proof
pub(crate) fn condvar_notify_one_slow(_c: &parking_lot::Condvar, _m: *mut parking_lot::RawMutex) -> bool {
	panic!("verif: parking_lot condvar slow path reached")
}
pub(crate) fn condvar_notify_all_slow(_c: &parking_lot::Condvar, _m: *mut parking_lot::RawMutex) -> usize {
	panic!("verif: parking_lot condvar slow path reached")
}
pub(crate) fn condvar_wait_until_internal(
	_c: &parking_lot::Condvar,
	_m: &parking_lot::RawMutex,
	_timeout: Option<std::time::Instant>,
) -> parking_lot::WaitTimeoutResult {
	panic!("verif: parking_lot condvar wait reached")
}

pub(crate) fn try_lock_shared_slow(_l: &parking_lot::RawRwLock, _recursive: bool) -> bool {
	panic!("verif: parking_lot slow path reached")
}
pub(crate) fn try_lock_upgradable_slow(_l: &parking_lot::RawRwLock) -> bool {
	panic!("verif: parking_lot slow path reached")
}
pub(crate) fn try_upgrade_slow(_l: &parking_lot::RawRwLock) -> bool {
	panic!("verif: parking_lot slow path reached")
}
pub(crate) unsafe fn bump_shared_slow(_l: &parking_lot::RawRwLock) {
	panic!("verif: parking_lot slow path reached")
}
pub(crate) fn bump_exclusive_slow(_l: &parking_lot::RawRwLock) {
	panic!("verif: parking_lot slow path reached")
}
pub(crate) fn bump_upgradable_slow(_l: &parking_lot::RawRwLock) {
	panic!("verif: parking_lot slow path reached")
}
pub(crate) fn mutex_bump_slow(_m: &parking_lot::RawMutex) {
	panic!("verif: parking_lot slow path reached")
}
