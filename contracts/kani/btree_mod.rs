// Appended to /repo/src/btree/mod.rs of the scratch copy (child module: sees BTreeTable's and Entry's private items).
// U12 (node entry codec) and U19 (per-table maintenance is applied to every value table of a btree column).
#![allow(dead_code, unused_variables, unused_imports, static_mut_refs, unused_mut)]
use super::*;
use crate::db::{RcKey, RcValue};

fn ok<T>(r: Result<T>) -> Option<T> {
	match r {
		Ok(v) => Some(v),
		Err(e) => {
			std::mem::forget(e);
			None
		},
	}
}

// ================================================================== U12: separator / child / header codec
fn u12_codec_separator<const L: usize>() {
	let key: [u8; L] = kani::any();
	let addr: u64 = kani::any();
	kani::assume(addr != 0);
	let mut e = Entry::empty();
	e.write_child_index(Address::from_u64(7));
	e.write_separator(&key, Address::from_u64(addr));
	let total = 8 + 8 + 1 + if L >= 255 { 4 } else { 0 } + L;
	assert!(e.encoded.inner_mut().len() == total, "U12.codec.encoded_length");
	e.encoded.set_offset(0);
	match ok(e.read_child_index()) {
		Some(Some(c)) => assert!(c.as_u64() == 7, "U12.codec.child_roundtrip"),
		_ => assert!(false, "U12.codec.child_roundtrip"),
	}
	match ok(e.read_separator()) {
		Some(Some(s)) => {
			assert!(s.value.as_u64() == addr, "U12.codec.separator_value_roundtrip");
			assert!(s.key.len() == L, "U12.codec.separator_key_length_roundtrip");
			let q: usize = kani::any();
			kani::assume(q < L);
			assert!(s.key[q] == key[q], "U12.codec.separator_key_bytes_roundtrip");
			std::mem::forget(s);
		},
		_ => assert!(false, "U12.codec.separator_roundtrip"),
	}
	assert!(e.encoded.offset() == total, "U12.codec.offset_at_end");
	// end of entry reads as "no more separators"
	assert!(matches!(ok(e.read_separator()), Some(None)), "U12.codec.end_of_entry_is_none");
	std::mem::forget(e);
}
#[kani::proof]
#[kani::unwind(16)]
#[kani::stub(std::fmt::format, crate::verif_stubs::fmt_format)]
fn u12_codec_header_and_null_child() {
	let mut e = Entry::empty();
	let root: u64 = kani::any();
	let depth: u32 = kani::any();
	e.write_header(&BTreeHeader { root: Address::from_u64(root), depth });
	assert!(e.encoded.inner_mut().len() == 12, "U12.codec.header_length");
	e.encoded.set_offset(0);
	assert!(e.encoded.read_u64() == root && e.encoded.read_u32() == depth, "U12.codec.header_roundtrip");
	let mut c = Entry::empty();
	c.write_child_index(NULL_ADDRESS);
	c.encoded.set_offset(0);
	assert!(matches!(ok(c.read_child_index()), Some(None)), "U12.codec.null_child_is_none");
	// truncated input is rejected, not a panic
	let mut t = Entry::from_encoded(vec![1u8, 2, 3]);
	assert!(ok(t.read_child_index()).is_none(), "U12.codec.truncated_child_rejected");
	std::mem::forget(e);
	std::mem::forget(c);
	std::mem::forget(t);
}

// ================================================================== U19: maintenance passes reach every value table
pub(crate) static mut RM_N: usize = 0;
pub(crate) static mut CP_N: usize = 0;
pub(crate) fn stub_table_refresh_metadata(_t: &ValueTable) -> Result<()> {
	unsafe {
		RM_N += 1;
	}
	Ok(())
}
pub(crate) fn stub_table_complete_plan(_t: &ValueTable, _log: &mut LogWriter) -> Result<()> {
	unsafe {
		CP_N += 1;
	}
	Ok(())
}
#[kani::proof]
#[kani::unwind(6)]
#[kani::stub(crate::table::ValueTable::refresh_metadata, stub_table_refresh_metadata)]
#[kani::stub(crate::table::ValueTable::complete_plan, stub_table_complete_plan)]
#[kani::stub(std::hash::RandomState::new, crate::verif_stubs::random_state_new)]
#[kani::stub(parking_lot::RawRwLock::lock_shared_slow, crate::verif_stubs::lock_shared_slow)]
#[kani::stub(parking_lot::RawRwLock::unlock_shared_slow, crate::verif_stubs::unlock_shared_slow)]
#[kani::stub(parking_lot::RawRwLock::lock_exclusive_slow, crate::verif_stubs::lock_exclusive_slow)]
#[kani::stub(parking_lot::RawRwLock::unlock_exclusive_slow, crate::verif_stubs::unlock_exclusive_slow)]
#[kani::stub(std::fmt::format, crate::verif_stubs::fmt_format)]
fn u19_tree_column_maintenance_reaches_every_table() {
	let bt = BTreeTable {
		id: 0,
		tables: RwLock::new(vec![
			crate::table::verif_table::mk_table_tier(32, false, false, 0),
			crate::table::verif_table::mk_table_tier(33, false, false, 1),
			crate::table::verif_table::mk_table_tier(4096, true, false, 255),
		]),
		ref_counted: false,
		compression: Compress::new(crate::compress::CompressionType::NoCompression, u32::MAX),
	};
	let col = std::mem::ManuallyDrop::new(Column::Tree(bt));
	unsafe {
		RM_N = 0;
		CP_N = 0;
	}
	// after log replay the in-memory fill mark / free-list head of *every* table must be re-read, for every column kind
	assert!(ok(col.refresh_metadata()).is_some(), "U19.tree.refresh_metadata.no_error");
	assert!(unsafe { RM_N } == 3, "U19.tree.refresh_metadata_reaches_every_value_table");
	let overlays: &'static RwLock<crate::log::LogOverlays> = Box::leak(Box::new(RwLock::new(crate::log::LogOverlays::with_columns(0))));
	let w: &'static mut LogWriter<'static> = Box::leak(Box::new(LogWriter::new(overlays, 7)));
	assert!(ok(col.complete_plan(&mut *w)).is_some(), "U19.tree.complete_plan.no_error");
	assert!(unsafe { CP_N } == 3, "U19.tree.complete_plan_reaches_every_value_table");
}
// a btree column without value tables (its callees are contracts in the harnesses that use it)
pub(crate) fn mk_btree_table_empty() -> BTreeTable {
	BTreeTable {
		id: 0,
		tables: RwLock::new(Vec::new()),
		ref_counted: false,
		compression: Compress::new(crate::compress::CompressionType::NoCompression, u32::MAX),
	}
}

// ================================================================== U41: a btree commit applies all its operations sorted by key and persists the
// root pointer / depth whenever they changed. BTreeChangeSet::write_plan with BTree::{open, write_sorted_changes} and the
// header write replaced by contracts.
pub(crate) static mut BT_OPEN_ROOT: u64 = 0;
pub(crate) static mut BT_OPEN_DEPTH: u32 = 0;
pub(crate) static mut BT_NEW_ROOT: u64 = 0;
pub(crate) static mut BT_NEW_DEPTH: u32 = 0;
pub(crate) static mut BT_WS_N: usize = 0;
pub(crate) static mut BT_WS_LEN: usize = 0;
pub(crate) static mut BT_WS_SORTED: bool = false;
pub(crate) static mut BT_WS_STABLE: bool = false;
pub(crate) static mut BT_HDR_N: usize = 0;
pub(crate) static mut BT_HDR_OK: bool = false;
pub(crate) static mut BT_HDR_AFTER_WS: bool = false;
// BTree::open by contract: the tree as the stored header describes it
pub(crate) fn stub_btree_open<L: LogQuery>(_values: TablesRef, _log: &L, record_id: u64) -> Result<BTree> {
	unsafe {
		let root = if BT_OPEN_ROOT == 0 { None } else { Some(Address::from_u64(BT_OPEN_ROOT)) };
		Ok(BTree::new(root, BT_OPEN_DEPTH, record_id))
	}
}
// BTree::write_sorted_changes by contract (U23 + node units): applies the changes; root / depth may move
pub(crate) fn stub_write_sorted_changes(t: &mut BTree, changes: &[Operation<RcKey, RcValue>], _btree: TablesRef, _log: &mut LogWriter) -> Result<()> {
	unsafe {
		BT_WS_N += 1;
		BT_WS_LEN = changes.len();
		if changes.len() == 2 {
			let (k0, k1) = (changes[0].key().value()[0], changes[1].key().value()[0]);
			BT_WS_SORTED = k0 <= k1;
			// operations on the same key keep their commit order (the first one was a Set, the second a Dereference)
			BT_WS_STABLE = k0 != k1 || (matches!(changes[0], Operation::Set(..)) && matches!(changes[1], Operation::Dereference(..)));
		}
		t.root_index = if BT_NEW_ROOT == 0 { None } else { Some(Address::from_u64(BT_NEW_ROOT)) };
		t.depth = BT_NEW_DEPTH;
	}
	Ok(())
}
// Column::write_existing_value_plan by contract, here: the rewrite of the header entry
pub(crate) fn stub_write_header_entry<K, V: AsRef<[u8]>>(
	key: &TableKey,
	_tables: TablesRef,
	address: Address,
	change: &Operation<K, V>,
	_log: &mut LogWriter,
	_stats: Option<&crate::stats::ColumnStats>,
	_ref_counted: bool,
) -> Result<(Option<crate::index::PlanOutcome>, Option<Address>)> {
	unsafe {
		BT_HDR_N += 1;
		BT_HDR_AFTER_WS = BT_WS_N == 1;
		let mut ok = matches!(key, TableKey::NoHash) && address.as_u64() == HEADER_ADDRESS.as_u64();
		match change {
			Operation::Set(_, v) => {
				let b = v.as_ref();
				let root = BT_NEW_ROOT.to_le_bytes();
				let depth = BT_NEW_DEPTH.to_le_bytes();
				ok = ok && b.len() == 12 && b[0] == root[0] && b[1] == root[1] && b[2] == root[2] && b[3] == root[3] && b[4] == root[4] && b[5] == root[5] && b[6] == root[6] && b[7] == root[7];
				ok = ok && b.len() == 12 && b[8] == depth[0] && b[9] == depth[1] && b[10] == depth[2] && b[11] == depth[3];
			},
			_ => ok = false,
		}
		BT_HDR_OK = ok;
	}
	Ok((Some(crate::index::PlanOutcome::Written), None))
}
#[kani::proof]
#[kani::unwind(14)]
#[kani::stub(BTree::open, stub_btree_open)]
#[kani::stub(BTree::write_sorted_changes, stub_write_sorted_changes)]
#[kani::stub(crate::column::Column::write_existing_value_plan, stub_write_header_entry)]
#[kani::stub(std::hash::RandomState::new, crate::verif_stubs::random_state_new)]
#[kani::stub(parking_lot::RawRwLock::lock_shared_slow, crate::verif_stubs::lock_shared_slow)]
#[kani::stub(parking_lot::RawRwLock::unlock_shared_slow, crate::verif_stubs::unlock_shared_slow)]
#[kani::stub(parking_lot::RawRwLock::lock_exclusive_slow, crate::verif_stubs::lock_exclusive_slow)]
#[kani::stub(parking_lot::RawRwLock::unlock_exclusive_slow, crate::verif_stubs::unlock_exclusive_slow)]
#[kani::stub(std::fmt::format, crate::verif_stubs::fmt_format)]
fn u41_btree_commit_sorts_operations_and_persists_the_root() {
	let bt = std::mem::ManuallyDrop::new(mk_btree_table_empty());
	let (k0, k1): (u8, u8) = (kani::any(), kani::any());
	unsafe {
		BT_OPEN_ROOT = kani::any();
		BT_OPEN_DEPTH = kani::any();
		BT_NEW_ROOT = kani::any();
		BT_NEW_DEPTH = kani::any();
		BT_WS_N = 0;
		BT_WS_LEN = 0;
		BT_WS_SORTED = false;
		BT_WS_STABLE = false;
		BT_HDR_N = 0;
		BT_HDR_OK = false;
		BT_HDR_AFTER_WS = false;
	}
	let mut cs = std::mem::ManuallyDrop::new(commit_overlay::BTreeChangeSet::new(0));
	cs.changes.push(Operation::Set(RcKey::from(vec![k0]), RcValue::from(vec![1u8])));
	cs.changes.push(Operation::Dereference(RcKey::from(vec![k1])));
	let overlays: &'static RwLock<crate::log::LogOverlays> = Box::leak(Box::new(RwLock::new(crate::log::LogOverlays::with_columns(0))));
	let w: &'static mut LogWriter<'static> = Box::leak(Box::new(LogWriter::new(overlays, 7)));
	let mut ops: u64 = kani::any();
	kani::assume(ops < u64::MAX - 2);
	let ops0 = ops;
	let r = ok(cs.write_plan(&bt, w, &mut ops));
	assert!(r.is_some(), "U41.write_plan.no_error");
	assert!(unsafe { BT_WS_N } == 1 && unsafe { BT_WS_LEN } == 2, "U41.write_plan.every_operation_of_the_commit_is_applied");
	assert!(unsafe { BT_WS_SORTED }, "U41.write_plan.operations_are_applied_in_key_order");
	assert!(unsafe { BT_WS_STABLE }, "U41.write_plan.operations_on_one_key_keep_their_commit_order");
	let moved = unsafe { BT_OPEN_ROOT != BT_NEW_ROOT || BT_OPEN_DEPTH != BT_NEW_DEPTH };
	if moved {
		// the new root / depth reach the stored header in the same plan, after the tree was changed
		assert!(unsafe { BT_HDR_N } >= 1 && unsafe { BT_HDR_OK } && unsafe { BT_HDR_AFTER_WS }, "U41.write_plan.moved_root_or_depth_is_persisted_in_the_header");
	} else if unsafe { BT_HDR_N } > 0 {
		assert!(unsafe { BT_HDR_OK }, "U41.write_plan.header_never_rewritten_with_other_values");
	}
	assert!(ops == ops0 + 2, "U41.write_plan.operation_counter_advanced");
	kani::cover!(moved && k0 > k1, "reached");
}
/*@@GENERATED:btree_mod@@*/
