// Appended to /repo/src/btree/mod.rs of the scratch copy (child module: sees BTreeTable's and Entry's private items).
// U12 (node entry codec) and U19 (per-table maintenance is applied to every value table of a btree column).
#![allow(dead_code, unused_variables, unused_imports, static_mut_refs, unused_mut)]
use super::*;

fn ok<T>(r: Result<T>) -> Option<T> {
	match r {
		Ok(v) => Some(v),
		Err(e) => {
			std::mem::forget(e);
			None
		},
	}
}

// ================================================================== U12: separator / child / header codec
fn u12_codec_separator<const L: usize>() {
	let key: [u8; L] = kani::any();
	let addr: u64 = kani::any();
	kani::assume(addr != 0);
	let mut e = Entry::empty();
	e.write_child_index(Address::from_u64(7));
	e.write_separator(&key, Address::from_u64(addr));
	let total = 8 + 8 + 1 + if L >= 255 { 4 } else { 0 } + L;
	assert!(e.encoded.inner_mut().len() == total, "U12.codec.encoded_length");
	e.encoded.set_offset(0);
	match ok(e.read_child_index()) {
		Some(Some(c)) => assert!(c.as_u64() == 7, "U12.codec.child_roundtrip"),
		_ => assert!(false, "U12.codec.child_roundtrip"),
	}
	match ok(e.read_separator()) {
		Some(Some(s)) => {
			assert!(s.value.as_u64() == addr, "U12.codec.separator_value_roundtrip");
			assert!(s.key.len() == L, "U12.codec.separator_key_length_roundtrip");
			let q: usize = kani::any();
			kani::assume(q < L);
			assert!(s.key[q] == key[q], "U12.codec.separator_key_bytes_roundtrip");
			std::mem::forget(s);
		},
		_ => assert!(false, "U12.codec.separator_roundtrip"),
	}
	assert!(e.encoded.offset() == total, "U12.codec.offset_at_end");
	// end of entry reads as "no more separators"
	assert!(matches!(ok(e.read_separator()), Some(None)), "U12.codec.end_of_entry_is_none");
	std::mem::forget(e);
}
#[kani::proof]
#[kani::unwind(16)]
#[kani::stub(std::fmt::format, crate::verif_stubs::fmt_format)]
fn u12_codec_header_and_null_child() {
	let mut e = Entry::empty();
	let root: u64 = kani::any();
	let depth: u32 = kani::any();
	e.write_header(&BTreeHeader { root: Address::from_u64(root), depth });
	assert!(e.encoded.inner_mut().len() == 12, "U12.codec.header_length");
	e.encoded.set_offset(0);
	assert!(e.encoded.read_u64() == root && e.encoded.read_u32() == depth, "U12.codec.header_roundtrip");
	let mut c = Entry::empty();
	c.write_child_index(NULL_ADDRESS);
	c.encoded.set_offset(0);
	assert!(matches!(ok(c.read_child_index()), Some(None)), "U12.codec.null_child_is_none");
	// truncated input is rejected, not a panic
	let mut t = Entry::from_encoded(vec![1u8, 2, 3]);
	assert!(ok(t.read_child_index()).is_none(), "U12.codec.truncated_child_rejected");
	std::mem::forget(e);
	std::mem::forget(c);
	std::mem::forget(t);
}

// ================================================================== U19: maintenance passes reach every value table
pub(crate) static mut RM_N: usize = 0;
pub(crate) static mut CP_N: usize = 0;
pub(crate) fn stub_table_refresh_metadata(_t: &ValueTable) -> Result<()> {
	unsafe {
		RM_N += 1;
	}
	Ok(())
}
pub(crate) fn stub_table_complete_plan(_t: &ValueTable, _log: &mut LogWriter) -> Result<()> {
	unsafe {
		CP_N += 1;
	}
	Ok(())
}
#[kani::proof]
#[kani::unwind(6)]
#[kani::stub(crate::table::ValueTable::refresh_metadata, stub_table_refresh_metadata)]
#[kani::stub(crate::table::ValueTable::complete_plan, stub_table_complete_plan)]
#[kani::stub(std::hash::RandomState::new, crate::verif_stubs::random_state_new)]
#[kani::stub(parking_lot::RawRwLock::lock_shared_slow, crate::verif_stubs::lock_shared_slow)]
#[kani::stub(parking_lot::RawRwLock::unlock_shared_slow, crate::verif_stubs::unlock_shared_slow)]
#[kani::stub(parking_lot::RawRwLock::lock_exclusive_slow, crate::verif_stubs::lock_exclusive_slow)]
#[kani::stub(parking_lot::RawRwLock::unlock_exclusive_slow, crate::verif_stubs::unlock_exclusive_slow)]
#[kani::stub(std::fmt::format, crate::verif_stubs::fmt_format)]
fn u19_tree_column_maintenance_reaches_every_table() {
	let bt = BTreeTable {
		id: 0,
		tables: RwLock::new(vec![
			crate::table::verif_table::mk_table_tier(32, false, false, 0),
			crate::table::verif_table::mk_table_tier(33, false, false, 1),
			crate::table::verif_table::mk_table_tier(4096, true, false, 255),
		]),
		ref_counted: false,
		compression: Compress::new(crate::compress::CompressionType::NoCompression, u32::MAX),
	};
	let col = std::mem::ManuallyDrop::new(Column::Tree(bt));
	unsafe {
		RM_N = 0;
		CP_N = 0;
	}
	// after log replay the in-memory fill mark / free-list head of *every* table must be re-read, for every column kind
	assert!(ok(col.refresh_metadata()).is_some(), "U19.tree.refresh_metadata.no_error");
	assert!(unsafe { RM_N } == 3, "U19.tree.refresh_metadata_reaches_every_value_table");
	let overlays: &'static RwLock<crate::log::LogOverlays> = Box::leak(Box::new(RwLock::new(crate::log::LogOverlays::with_columns(0))));
	let w: &'static mut LogWriter<'static> = Box::leak(Box::new(LogWriter::new(overlays, 7)));
	assert!(ok(col.complete_plan(&mut *w)).is_some(), "U19.tree.complete_plan.no_error");
	assert!(unsafe { CP_N } == 3, "U19.tree.complete_plan_reaches_every_value_table");
}
// a btree column without value tables (its callees are contracts in the harnesses that use it)
pub(crate) fn mk_btree_table_empty() -> BTreeTable {
	BTreeTable {
		id: 0,
		tables: RwLock::new(Vec::new()),
		ref_counted: false,
		compression: Compress::new(crate::compress::CompressionType::NoCompression, u32::MAX),
	}
}
/*@@GENERATED:btree_mod@@*/
