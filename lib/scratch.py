"""Scratch copies of /repo (outside /repo and /verif), with contract modules injected.

The Kani route never extracts code: the scratch copy is /repo's current working tree plus
`#[cfg(kani)] mod verif_<unit>;`-style child modules appended to real source files.
"""
import os, shutil, subprocess, tempfile, atexit

REPO = os.environ.get("VERIF_REPO", "/repo")
VERIF = os.path.dirname(os.path.dirname(os.path.abspath(__file__)))
CACHE = os.path.join(VERIF, ".cache")

_live = []


def _cleanup():
    for d in list(_live):
        shutil.rmtree(d, ignore_errors=True)


atexit.register(_cleanup)


def tmp_root():
    return os.environ.get("VERIF_TMP", tempfile.gettempdir())


def make_scratch(prefix="pdbverif-"):
    """rsync /repo's working tree (no target/, no .git) into a fresh directory."""
    d = tempfile.mkdtemp(prefix=prefix, dir=tmp_root())
    _live.append(d)
    dst = os.path.join(d, "repo")
    os.makedirs(dst)
    subprocess.run(
        ["rsync", "-a", "--exclude", "/target", "--exclude", "/.git", "--exclude", "/fuzz/target",
         REPO + "/", dst + "/"],
        check=True,
    )
    return d, dst


def remove_scratch(d):
    shutil.rmtree(d, ignore_errors=True)
    if d in _live:
        _live.remove(d)


def append_child_module(repo_dir, rel_file, mod_name, mod_text, cfg="kani", pub=False):
    """Append `#[cfg(kani)] mod <name> { ... }` to a real source file (child module => sees privates)."""
    path = os.path.join(repo_dir, rel_file)
    with open(path, "a") as f:
        f.write("\n\n#[cfg(%s)]\n%smod %s {\n" % (cfg, "pub(crate) " if pub else "", mod_name))
        f.write(mod_text)
        f.write("\n}\n")


def append_crate_module(repo_dir, mod_name, mod_text, cfg="kani"):
    path = os.path.join(repo_dir, "src/lib.rs")
    with open(path, "a") as f:
        f.write("\n\n#[cfg(%s)]\npub(crate) mod %s {\n" % (cfg, mod_name))
        f.write(mod_text)
        f.write("\n}\n")
