#!/usr/bin/env python3
"""debug helper: prepare a scratch copy with the given contract modules and run one harness with regular Kani output.
usage: lib/dbg.py <module keys comma separated> <full harness path> [extra cargo-kani args...]"""
import os, sys, subprocess
sys.path.insert(0, os.path.dirname(os.path.abspath(__file__)))
import driver, units, scratch, kani
mods = [units.KMODULES[k] for k in sys.argv[1].split(",")]
d, repo = driver.prepare_kani_scratch(mods)
if d in scratch._live:
    scratch._live.remove(d)
print("scratch", d)
env = dict(os.environ); env.update(kani.KANI_ENV)
cmd = ["cargo", "kani", "-Z", "stubbing", "-Z", "unstable-options", "--no-assertion-reach-checks", "--output-format", "terse",
       "--harness-timeout", "600s", "--exact", "--harness", sys.argv[2]] + sys.argv[3:]
subprocess.run(cmd, cwd=repo, env=env)
if os.environ.get('DBG_KEEP') != '1':
    import shutil
    shutil.rmtree(d, ignore_errors=True)
