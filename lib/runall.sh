#!/bin/bash
# usage: lib/runall.sh [quick|thorough]   -- runs every claimed property's check sequentially, validates the evidence files
T=${1:-quick}
cd "$(dirname "$0")/.."
python3 lib/mkmanifest.py > /dev/null
for p in $(python3 -c "import json;print(' '.join(c['property_id'] for c in json.load(open('MANIFEST.json'))['checks']))"); do
  s=$(date +%s)
  ./check $p --tier $T > .cache/run-$p-$T.log 2>&1; rc=$?
  e=$(( $(date +%s) - s ))
  echo "$p rc=$rc ${e}s $(grep -c '^UNDECIDED' .cache/run-$p-$T.log) undecided $(grep -c '^VIOLATION' .cache/run-$p-$T.log) violations"
done
python3-vt - <<'PY'
import json, jsonschema, glob
man=json.load(open('MANIFEST.json'))
jsonschema.validate(man, json.load(open('/root/.vp/MANIFEST.schema.json')))
es=json.load(open('/root/.vp/EVIDENCE.schema.json'))
for c in man['checks']:
    try:
        ev=json.load(open(c['evidence_file'])); jsonschema.validate(ev, es)
        ok = ev['level']==c['level_claimed']['category']
        print(c['property_id'], 'evidence valid', 'level', ev['level'], 'obligations', ev['coverage'].get('obligations'), 'discharged', ev['coverage'].get('discharged'), '' if ok else 'LEVEL MISMATCH')
    except Exception as e:
        print(c['property_id'], 'EVIDENCE PROBLEM', str(e)[:200])
PY
