#!/usr/bin/env python3
"""Regenerate /verif/MANIFEST.json from lib/units.py (single source of truth). Run after editing PROPS."""
import json, os, sys

sys.path.insert(0, os.path.dirname(os.path.abspath(__file__)))
import units

VERIF = units.VERIF

NA = {
    "C02": "Quantifies over crash points between file-system operations and over directory images; the deciding state is kernel/page-cache state, not a function result. Kani has no file or process model; Verus would need the whole I/O stack axiomatised, i.e. proving a model, which is a different technique family. The per-function obligations of the recovery mechanism that contracts can carry are decided under C13 (record validation, checksum gate, sequence gate, replay order, torn first record), C12 (sync before apply, flush before reclaim, oldest-first reclaim) and C03 (no hole in the record ids, start-up order, shutdown drain); their composition over crash points is not mechanised.",
    "C05": "Concurrency: Kani has no threads; Verus would require rewriting the locking in its permission types (a different program).",
    "C11": "Concurrency plus scheduling of deferred commits across reader locks (Weak<RwLock<Box<dyn TreeReader>>>, is_locked races); same reason as C05.",
    "C15": "Liveness (every commit returns, shutdown terminates) under all wake-up interleavings; the installed deductive back ends prove partial correctness of sequential code only. The termination facts within reach are proved where they belong: lookup chains terminate (C09), every loop of the shutdown drain terminates given the step contracts of the stage functions (C03, unit shutdown_drain), the mask walk of log records terminates (C13).",
}


def main():
    checks = []
    for pid in sorted(units.PROPS):
        p = units.PROPS[pid]
        checks.append({
            "property_id": pid,
            "quick_cmd": "./check %s --tier quick" % pid,
            "thorough_cmd": "./check %s --tier thorough" % pid,
            "evidence_file": "/verif/evidence/%s.json" % pid,
            "replay_cmd_template": "./check %s --replay {path}" % pid,
            "engine": "contracts",
            "level_claimed": {"category": p["level"], "text": p["claim"], "design_ref": p.get("design_ref", "DESIGN.md §4 " + pid)},
            "level_note": p["level_note"],
            "technique": p["technique"],
        })
    allp = [json.loads(l)["id"] for l in open(os.path.join(VERIF, "properties.jsonl")) if l.strip()]
    na = []
    for k in allp:
        if k in units.PROPS:
            continue
        na.append({"property_id": k, "reason": NA.get(k, "check not built yet in this session (planned: DESIGN.md §4); not claimed until its check runs")})
    man = {
        "version": 1,
        "setup_cmd": "./setup.sh",
        "hooks": {
            "guard": "parity_db_verif",
            "enable": "none needed: contracts and harness modules are injected into a scratch copy of /repo under Kani's own cfg(kani); Verus works on text extracted from /repo on every run",
            "baseline_off_cmd": "cd /repo && cargo test --workspace --no-fail-fast --offline",
            "source_commits": [],
            "add_only": True,
        },
        "engines": [{
            "name": "contracts", "path": "/verif/check",
            "serves_properties": sorted(units.PROPS),
            "kind_free_text": "contract-based deductive verification of the real code: Kani 0.68/CBMC function-level contracts and harnesses compiled from /repo's working tree (scratch copy + injected cfg(kani) child modules), Verus 0.2026.09.13 on functions extracted mechanically from /repo on every run",
        }],
        "checks": checks,
        "not_applicable": na,
        "notes": "Exit 2 = undecided (tool failure, lost anchor, timeout, vacuity guard) and is never an alarm. See DESIGN.md.",
    }
    with open(os.path.join(VERIF, "MANIFEST.json"), "w") as f:
        json.dump(man, f, indent=1)
    try:
        import jsonschema
        jsonschema.validate(man, json.load(open("/root/.vp/MANIFEST.schema.json")))
        print("MANIFEST.json valid; claimed:", sorted(units.PROPS), "n/a:", [x["property_id"] for x in na])
    except ImportError:
        print("jsonschema not available; wrote MANIFEST.json")


if __name__ == "__main__":
    main()
