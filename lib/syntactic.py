"""Syntactic side conditions on function text of /repo (NOT proofs: reported as assumptions checked by text dominance)."""
import os, re
import extract, scratch


def commit_raw_checks_before_publish(repo=None):
    repo = repo or scratch.REPO
    rep = {"unit": "syntactic:commit_raw_checks_before_publish", "status": "undecided", "reason": "", "failed": [],
           "named": ["U10.commit_raw.check_precedes_publication"], "obligations": 1, "verified": 0, "errors": 0,
           "cmd": "text dominance check on DbInner::commit_raw in src/db.rs", "wall_s": 0.0, "functions": ["db::DbInner::commit_raw"],
           "trusted_scan": {"syntactic-check (not a proof)": 1}, "smt_s": 0}
    try:
        src = open(os.path.join(repo, "src/db.rs")).read()
        start, fnpos, body_open, end = extract.find_fn(src, "commit_raw", impl="DbInner")
    except (extract.LostAnchor, OSError) as e:
        rep["reason"] = "commit_raw not found: %s" % e
        return rep
    body = src[body_open:end]
    # strip comments
    body_nc = re.sub(r"//[^\n]*", "", body)
    checks = [m.start() for m in re.finditer(r"\.check\(\s*&self\.options\s*\)\s*\?", body_nc)]
    pub = [m.start() for m in re.finditer(r"\.copy_to_overlay\s*\(", body_nc)]
    idm = re.search(r"queue\.record_id\s*\+=\s*1", body_nc)
    ok = True
    why = []
    if not pub:
        rep["reason"] = "no copy_to_overlay call in commit_raw (code restructured)"
        return rep
    first_pub = min(pub)
    idx_ok = re.search(r"for\s+\w+\s+in\s+commit\.indexed\.values\(\)\s*\{[^}]*\.check\(", body_nc[:first_pub]) is not None
    bt_ok = re.search(r"for\s+\w+\s+in\s+commit\.btree_indexed\.values\(\)\s*\{[^}]*\.check\(", body_nc[:first_pub]) is not None
    if len([c for c in checks if c < first_pub]) < 2 or not idx_ok or not bt_ok:
        ok = False
        why.append("not every change set of the transaction is check()ed before the first copy_to_overlay")
    if idm and any(c > idm.start() for c in checks[:2]):
        ok = False
        why.append("the commit id is taken before validation finished")
    if ok:
        rep["status"] = "verified"
        rep["verified"] = 1
    else:
        rep["status"] = "failed"
        rep["errors"] = 1
        rep["failed"].append({"obligation": "U10.commit_raw.check_precedes_publication", "clause": "; ".join(why),
                              "function": "DbInner::commit_raw", "diag": "syntactic dominance check failed: " + "; ".join(why),
                              "text": src[start:end][:6000]})
    return rep


CHECKS = {"commit_raw_checks_before_publish": commit_raw_checks_before_publish}
