"""Syntactic side conditions on function text of /repo (NOT proofs: reported as assumptions checked by text dominance)."""
import os, re
import extract, scratch


def commit_raw_checks_before_publish(repo=None):
    repo = repo or scratch.REPO
    rep = {"unit": "syntactic:commit_raw_checks_before_publish", "status": "undecided", "reason": "", "failed": [],
           "named": ["U10.commit_raw.check_precedes_publication"], "obligations": 1, "verified": 0, "errors": 0,
           "cmd": "text dominance check on DbInner::commit_raw in src/db.rs", "wall_s": 0.0, "functions": ["db::DbInner::commit_raw"],
           "trusted_scan": {"syntactic-check (not a proof)": 1}, "smt_s": 0}
    try:
        src = open(os.path.join(repo, "src/db.rs")).read()
        start, fnpos, body_open, end = extract.find_fn(src, "commit_raw", impl="DbInner")
    except (extract.LostAnchor, OSError) as e:
        rep["reason"] = "commit_raw not found: %s" % e
        return rep
    body = src[body_open:end]
    # strip comments
    body_nc = re.sub(r"//[^\n]*", "", body)
    checks = [m.start() for m in re.finditer(r"\.check\(\s*&self\.options\s*\)", body_nc)]
    pub = [m.start() for m in re.finditer(r"\.copy_to_overlay\s*\(", body_nc)]
    idm = re.search(r"queue\.record_id\s*\+=\s*1", body_nc)
    ok = True
    why = []
    if not pub:
        rep["reason"] = "no copy_to_overlay call in commit_raw (code restructured)"
        return rep
    first_pub = min(pub)
    if not checks:
        # validation may have been moved into a helper: the text of commit_raw alone decides nothing
        rep["reason"] = "no check(&self.options)? call in commit_raw (validation restructured): undecided by this text check"
        return rep
    # which kind of change set a check() call validates: the nearest mention of `commit.indexed` / `commit.btree_indexed` in
    # front of it (the loop header or the iterator chain it belongs to)
    def kinds_of(pos):
        seg = body_nc[max(0, pos - 240):pos]
        seg = seg[seg.rfind(";") + 1:]
        return set(m.group(1) for m in re.finditer(r"commit\.(btree_indexed|indexed)\b", seg))
    def kind_of(pos):
        k = kinds_of(pos)
        return k or None
    before = [c for c in checks if c < first_pub]
    after = [c for c in checks if c > first_pub]
    kinds_before = set().union(*[kinds_of(c) for c in before]) if before else set()
    kinds_after = set().union(*[kinds_of(c) for c in after]) if after else set()
    missing = {"indexed", "btree_indexed"} - kinds_before
    if not missing:
        pass
    elif missing & kinds_after:
        # whatever the form of the calls (loop, iterator adapter): some change set is validated only after another one
        # has been published
        ok = False
        why.append("a change set is check()ed only after another change set of the same transaction was published (copy_to_overlay)")
    elif before and all(kind_of(c) is not None for c in before):
        ok = False
        why.append("the %s change sets of the transaction are not check()ed before the first copy_to_overlay" % ("btree" if "btree_indexed" in missing else "hash"))
    else:
        rep["reason"] = "check() calls in commit_raw could not be attributed to the two kinds of change set (validation restructured): undecided by this text check"
        return rep
    if idm and any(c > idm.start() for c in checks[:2]):
        ok = False
        why.append("the commit id is taken before validation finished")
    if ok:
        rep["status"] = "verified"
        rep["verified"] = 1
    else:
        rep["status"] = "failed"
        rep["errors"] = 1
        rep["failed"].append({"obligation": "U10.commit_raw.check_precedes_publication", "clause": "; ".join(why),
                              "function": "DbInner::commit_raw", "diag": "syntactic dominance check failed: " + "; ".join(why),
                              "text": src[start:end][:6000]})
    return rep


def claim_tree_values_checks_before_claim(repo=None):
    """In HashColumn::claim_tree_values the representability check of the root (packed_child_count) and of every new
    node (prepare_children -> prepare_node) must precede the first claim_entries call."""
    repo = repo or scratch.REPO
    rep = {"unit": "syntactic:claim_tree_values_checks_before_claim", "status": "undecided", "reason": "", "failed": [],
           "named": ["U11.claim_tree_values.representability_checked_before_any_slot_is_claimed"], "obligations": 1, "verified": 0, "errors": 0,
           "cmd": "text dominance check on HashColumn::claim_tree_values / prepare_node in src/column.rs", "wall_s": 0.0,
           "functions": ["column::HashColumn::claim_tree_values", "column::HashColumn::prepare_node"],
           "trusted_scan": {"syntactic-check (not a proof)": 1}, "smt_s": 0}
    try:
        src = open(os.path.join(repo, "src/column.rs")).read()
        start, fnpos, body_open, end = extract.find_fn(src, "claim_tree_values", impl="HashColumn")
        s2, f2, b2, e2 = extract.find_fn(src, "prepare_node", impl="HashColumn")
    except (extract.LostAnchor, OSError) as e:
        rep["reason"] = "function not found: %s" % e
        return rep
    body = re.sub(r"//[^\n]*", "", src[body_open:end])
    pn = re.sub(r"//[^\n]*", "", src[b2:e2])
    claim = re.search(r"\.claim_entries\s*\(", body)
    if not claim:
        rep["reason"] = "no claim_entries call in claim_tree_values (code restructured)"
        return rep
    why = []
    root = re.search(r"packed_child_count\s*\([^)]*children\.len\(\)\s*\)\s*\?", body)
    prep = re.search(r"\.prepare_children\s*\(", body)
    if not root or root.start() > claim.start():
        why.append("the root's child count is not checked before the first claim_entries")
    if not prep or prep.start() > claim.start():
        why.append("new nodes are not visited (prepare_children) before the first claim_entries")
    if not re.search(r"packed_child_count\s*\([^)]*children\.len\(\)\s*\)\s*\?", pn):
        why.append("prepare_node does not check the child count of a new node")
    if not why:
        rep["status"] = "verified"
        rep["verified"] = 1
    else:
        rep["status"] = "failed"
        rep["errors"] = 1
        rep["failed"].append({"obligation": rep["named"][0], "clause": "; ".join(why), "function": "HashColumn::claim_tree_values",
                              "diag": "syntactic dominance check failed: " + "; ".join(why), "text": src[start:end][:6000]})
    return rep


STORAGE_CLAIMING = ["claim_tree_values", "claim_entries", "claim_next_free", "next_free"]


def commit_changes_claims_nothing_before_validation(repo=None):
    """C08 'no storage is consumed by a rejected transaction': DbInner::commit_changes builds the change set operation by
    operation and may return Err at any later operation (or in commit_raw's validation). Every call inside that loop that
    claims value-table slots is therefore an effect of a transaction that may still be rejected. One obligation per call
    site (callee + ordinal), so that a listed finding never hides a new site."""
    repo = repo or scratch.REPO
    base = "U10.commit_changes.no_storage_claimed_before_the_transaction_is_validated"
    rep = {"unit": "syntactic:commit_changes_claims_nothing_before_validation", "status": "undecided", "reason": "", "failed": [],
           "named": [base], "obligations": 1, "verified": 0, "errors": 0,
           "cmd": "call-site scan of the per-operation loop of DbInner::commit_changes in src/db.rs", "wall_s": 0.0,
           "functions": ["db::DbInner::commit_changes"], "trusted_scan": {"syntactic-check (not a proof)": 1}, "smt_s": 0}
    try:
        src = open(os.path.join(repo, "src/db.rs")).read()
        start, fnpos, body_open, end = extract.find_fn(src, "commit_changes", impl="DbInner")
    except (extract.LostAnchor, OSError) as e:
        rep["reason"] = "commit_changes not found: %s" % e
        return rep
    body = re.sub(r"//[^\n]*", "", src[body_open:end])
    m = re.search(r"for\s*\([^)]*\)\s*in\s+tx(\.into_iter\(\))?\s*\{", body)
    if not m:
        rep["reason"] = "per-operation loop of commit_changes not found (code restructured)"
        return rep
    try:
        loop_end = extract.match_brace(body, m.end() - 1)
    except extract.LostAnchor as e:
        rep["reason"] = str(e)
        return rep
    loop = body[m.end():loop_end]
    sites = []
    for callee in STORAGE_CLAIMING:
        for n, _cm in enumerate(re.finditer(r"\.%s\s*\(" % callee, loop), 1):
            sites.append("%s#%d" % (callee, n))
    rep["obligations"] = max(1, len(sites))
    if not sites:
        rep["status"] = "verified"
        rep["verified"] = 1
        return rep
    rep["status"] = "failed"
    rep["errors"] = len(sites)
    rep["named"] = ["%s[%s]" % (base, x) for x in sites]
    for x in sites:
        why = "commit_changes calls %s inside the per-operation loop: the slots stay claimed when a later operation of the same transaction (or commit_raw's validation) rejects it" % x.split("#")[0]
        rep["failed"].append({"obligation": "%s[%s]" % (base, x), "clause": why, "function": "DbInner::commit_changes",
                              "diag": "call-site scan: " + why + "\nnative demonstration: findings/c08_rejected_tx_claims_slots.rs",
                              "text": src[start:end][:8000]})
    return rep



def btree_commit_sorts_stably(repo=None):
    """Operations of one transaction on the same btree key must take effect in the order given. BTreeChangeSet::write_plan
    sorts the operations by key (Operation::cmp compares keys only, U24) before applying them: that preserves the per-key
    order only if the sort is a stable one. Small inputs cannot tell a stable from an unstable sort by execution (U41 uses
    two operations), hence this text-level side condition."""
    repo = repo or scratch.REPO
    name = "U41.write_plan.operations_are_sorted_with_a_stable_sort"
    rep = {"unit": "syntactic:btree_commit_sorts_stably", "status": "undecided", "reason": "", "failed": [],
           "named": [name], "obligations": 1, "verified": 0, "errors": 0,
           "cmd": "text check on BTreeChangeSet::write_plan in src/btree/mod.rs", "wall_s": 0.0,
           "functions": ["btree::commit_overlay::BTreeChangeSet::write_plan"], "trusted_scan": {"syntactic-check (not a proof)": 1}, "smt_s": 0}
    try:
        src = open(os.path.join(repo, "src/btree/mod.rs")).read()
        start, fnpos, body_open, end = extract.find_fn(src, "write_plan", impl="BTreeChangeSet")
    except (extract.LostAnchor, OSError) as e:
        rep["reason"] = "write_plan not found: %s" % e
        return rep
    body = re.sub(r"//[^\n]*", "", src[body_open:end])
    unstable = re.search(r"\.\s*(sort_unstable\w*|select_nth_unstable\w*)\s*\(", body)
    stable = re.search(r"\.\s*(sort|sort_by|sort_by_key|sort_by_cached_key)\s*\(", body)
    if unstable:
        rep["status"] = "failed"
        rep["errors"] = 1
        why = "the operations of a transaction are ordered with an unstable sort (%s): operations on the same key may be reordered" % unstable.group(1)
        rep["failed"].append({"obligation": name, "clause": why, "function": "BTreeChangeSet::write_plan",
                              "diag": "text check failed: " + why, "text": src[start:end][:6000]})
    elif stable:
        rep["status"] = "verified"
        rep["verified"] = 1
    else:
        rep["reason"] = "no sort call in write_plan (code restructured)"
    return rep



def migrate_copies_after_source_open(repo=None):
    """C20: columns that keep their settings are copied file by file (copy_column). The source's pending write-ahead logs are
    replayed into its files by Db::open; a copy made before that misses every record that was only in the log. Text
    dominance: in migration::migrate the statement `.. = Db::open(&source_options)?;` stands at the top level of the
    function body, in front of every copy_column call."""
    repo = repo or scratch.REPO
    rep = {"unit": "syntactic:migrate_copies_after_source_open", "status": "undecided", "reason": "", "failed": [],
           "named": ["U25.migrate.columns_are_copied_only_after_the_source_was_opened_and_replayed"], "obligations": 1, "verified": 0, "errors": 0,
           "cmd": "text dominance check on migration::migrate in src/migration.rs", "wall_s": 0.0, "functions": ["migration::migrate"],
           "trusted_scan": {"syntactic-check (not a proof)": 1}, "smt_s": 0}
    try:
        src = open(os.path.join(repo, "src/migration.rs")).read()
        start, fnpos, body_open, end = extract.find_fn(src, "migrate")
    except (extract.LostAnchor, OSError) as e:
        rep["reason"] = "migrate not found: %s" % e
        return rep
    body = re.sub(r"//[^\n]*", "", src[body_open:end])
    copies = [m.start() for m in re.finditer(r"\bcopy_column\s*\(", body)]
    if not copies:
        rep["reason"] = "no copy_column call in migrate (code restructured): undecided by this text check"
        return rep
    opens = [m for m in re.finditer(r"=\s*Db::open\(\s*&source_options\s*\)\s*\?\s*;", body)]
    why = []
    if not opens:
        rep["reason"] = "no `Db::open(&source_options)?` statement in migrate (code restructured): undecided by this text check"
        return rep
    first = opens[0].start()
    depth = body[:first].count("{") - body[:first].count("}")
    if depth != 1:
        why.append("the source is not opened unconditionally at the top level of migrate")
    if any(c < first for c in copies):
        why.append("a column is copied (copy_column) before the source database was opened, i.e. before its pending logs were replayed into the files")
    if not why:
        rep["status"] = "verified"
        rep["verified"] = 1
    else:
        rep["status"] = "failed"
        rep["errors"] = 1
        rep["failed"].append({"obligation": rep["named"][0], "clause": "; ".join(why), "function": "migration::migrate",
                              "diag": "syntactic dominance check failed: " + "; ".join(why), "text": src[start:end][:6000]})
    return rep


def drop_joins_workers_before_kill_logs(repo=None):
    """C03: the shutdown drain (DbInner::kill_logs) assumes that no worker thread touches the pipeline any more. Text dominance on
    Db::drop_inner: the shutdown signal and the join of every worker thread the handle holds stand at the top level of the function
    in front of the kill_logs call, which stands in front of the release of the directory lock."""
    repo = repo or scratch.REPO
    rep = {"unit": "syntactic:drop_joins_workers_before_kill_logs", "status": "undecided", "reason": "", "failed": [],
           "named": ["U33.drop.every_worker_is_joined_before_the_drain"], "obligations": 1, "verified": 0, "errors": 0,
           "cmd": "text dominance check on Db::drop_inner in src/db.rs", "wall_s": 0.0, "functions": ["db::Db::drop_inner"],
           "trusted_scan": {"syntactic-check (not a proof)": 1}, "smt_s": 0}
    try:
        src = open(os.path.join(repo, "src/db.rs")).read()
        start, fnpos, body_open, end = extract.find_fn(src, "drop_inner", impl="Db")
        m = re.search(r"pub struct Db\s*\{(.*?)\n\}", src, re.S)
    except (extract.LostAnchor, OSError) as e:
        rep["reason"] = "drop_inner not found: %s" % e
        return rep
    body = re.sub(r"//[^\n]*", "", src[body_open:end])
    kill = re.search(r"\.kill_logs\s*\(", body)
    if not kill:
        rep["reason"] = "no kill_logs call in drop_inner (code restructured): undecided by this text check"
        return rep
    threads = re.findall(r"(\w+_thread)\s*:\s*Option<\s*(?:thread::|std::thread::)?JoinHandle", m.group(1)) if m else []
    if not threads:
        rep["reason"] = "no worker thread handles found in struct Db (code restructured): undecided by this text check"
        return rep
    why = []
    sd = re.search(r"\.shutdown\s*\(\s*\)", body)
    if not sd or sd.start() > kill.start():
        why.append("the workers are not told to shut down before the drain")
    for t in threads:
        tk = re.search(r"self\.%s\.take\(\)" % re.escape(t), body)
        if not tk or tk.start() > kill.start():
            why.append("worker thread `%s` is not joined before the drain" % t)
            continue
        seg = body[tk.start():kill.start()]
        if not re.search(r"\.join\s*\(\s*\)", seg):
            why.append("worker thread `%s` is taken but not joined before the drain" % t)
    un = re.search(r"\.unlock\s*\(\s*\)", body)
    if un and un.start() < kill.start():
        why.append("the directory lock is released before the drain")
    if not why:
        rep["status"] = "verified"
        rep["verified"] = 1
    else:
        rep["status"] = "failed"
        rep["errors"] = 1
        rep["failed"].append({"obligation": rep["named"][0], "clause": "; ".join(why), "function": "Db::drop_inner",
                              "diag": "syntactic dominance check failed: " + "; ".join(why), "text": src[start:end][:6000]})
    return rep

CHECKS = {"commit_raw_checks_before_publish": commit_raw_checks_before_publish,
          "claim_tree_values_checks_before_claim": claim_tree_values_checks_before_claim,
          "commit_changes_claims_nothing_before_validation": commit_changes_claims_nothing_before_validation,
          "btree_commit_sorts_stably": btree_commit_sorts_stably,
          "migrate_copies_after_source_open": migrate_copies_after_source_open,
          "drop_joins_workers_before_kill_logs": drop_joins_workers_before_kill_logs}
