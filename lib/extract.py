"""Mechanical extraction of real items from /repo source for Verus.

A unit template (contracts/verus/<unit>.rs.tmpl) is a Verus source file in which directive blocks

    /*@extract fn file=src/index.rs impl=Entry name=new ret=r [nth=0] [as=new_name]
    spec:
        requires ...,
        ensures ...,
    insert before "<literal text of the following statement>":
        <ghost lines>
    insert after "<literal text>":
        <ghost lines>
    insert loopinv "<literal prefix of a loop header>":
        <invariant / decreases clauses, placed before the `{` opening that loop's body>
    insert loopend "<literal prefix of a loop header>":
        <ghost lines, placed at the end of that loop's body (does not depend on the statements of the body)>
    insert loopstart "<literal prefix of a loop header>":
        <ghost lines, placed at the start of that loop's body>
    (`insert before all` / `after all` / `loopinv all`: the same lines at every occurrence -- twin loops)
    rewrite "<literal>" => "<literal>"
    @*/

are replaced by the function's text taken from /repo *now*, with the contract spliced between the
signature and the body and ghost text inserted at the anchors.  `/*@extract struct file=.. name=.. [keep=f1,f2]@*/`
and `/*@extract const file=.. name=..@*/` copy type / constant definitions.

What the extraction changes, exhaustively (also reported in evidence):
  R1  visibility qualifiers (`pub`, `pub(crate)`, `pub(super)`) and outer attributes (`#[...]`) are dropped;
      `const fn` becomes `fn`;
  R2  statements that are a `log::{trace,debug,info,warn,error}!(...)` call are dropped;
  R3  `assert!(c)` / `assert_eq!(a, b)` / `debug_assert!(c)` become Verus `assert(c)` / `assert(a == b)`
      proof obligations (they must be proved never to fire);
  R4  the return type `-> T` becomes `-> (r: T)` when `ret=r` is given (names the result for `ensures`);
  R4  `Error::X(format!(..))` (an error whose payload is message text) becomes a call to the uninterpreted `mk_err()`;
      control flow is untouched;
  R5  struct definitions keep only the fields listed in `keep=` (fields of external types no extracted body mentions);
  R8  `extract fragment`: a contiguous run of statements of a function body, delimited by two literal anchors, copied
      verbatim into a wrapper function written in the template (used where the rest of the body is outside Verus' subset);
  R6  every `rewrite` directive, verbatim, listed in the evidence as a trusted rewrite;
  R9  (opt-in per directive, `normalize=ifelse`) every `if` without `else` gets an explicit empty `else {}`: the identity,
      needed because the installed Verus treats a conditionally moved borrow-carrying value as dropped on both paths;
  R7  constants marked fold=1 are evaluated by the extractor (integer literals, other constants of the same file,
      + - * / << >> and integer casts) and emitted as a literal with the source expression in a comment.
Everything else is byte-for-byte the text in /repo.  A missing item or anchor raises LostAnchor (exit 2).
"""
import os, re


class LostAnchor(Exception):
    pass


# ------------------------------------------------------------------ lexical helpers
def _skip_ws_comments(s, i):
    n = len(s)
    while i < n:
        if s[i].isspace():
            i += 1
        elif s.startswith("//", i):
            j = s.find("\n", i)
            i = n if j < 0 else j + 1
        elif s.startswith("/*", i):
            j = s.find("*/", i + 2)
            i = n if j < 0 else j + 2
        else:
            break
    return i


def _scan(s, i):
    """Advance over one lexical element starting at i if it is a comment, string or char literal; else return i."""
    n = len(s)
    if s.startswith("//", i):
        j = s.find("\n", i)
        return n if j < 0 else j
    if s.startswith("/*", i):
        depth, j = 1, i + 2
        while j < n and depth:
            if s.startswith("/*", j):
                depth += 1
                j += 2
            elif s.startswith("*/", j):
                depth -= 1
                j += 2
            else:
                j += 1
        return j
    c = s[i]
    if c == '"' or (c in "br" and re.match(r'b?r?#*"', s[i:i + 6])):
        m = re.match(r'(b?)(r?)(#*)"', s[i:])
        if m and m.group(2):  # raw string
            end = '"' + m.group(3)
            j = s.find(end, i + m.end())
            return n if j < 0 else j + len(end)
        j = i + (m.end() if m else 1)
        while j < n:
            if s[j] == "\\":
                j += 2
            elif s[j] == '"':
                return j + 1
            else:
                j += 1
        return n
    if c == "'":
        # char literal or lifetime
        m = re.match(r"'(\\.[^']*|[^'\\])'", s[i:])
        if m:
            return i + m.end()
        return i + 1
    return i


def match_brace(s, i):
    """s[i] must be an opening bracket; returns index just past the matching close."""
    open_c = s[i]
    close_c = {"{": "}", "(": ")", "[": "]"}[open_c]
    depth = 0
    n = len(s)
    while i < n:
        j = _scan(s, i)
        if j != i:
            i = j
            continue
        c = s[i]
        if c == open_c:
            depth += 1
        elif c == close_c:
            depth -= 1
            if depth == 0:
                return i + 1
        i += 1
    raise LostAnchor("unbalanced bracket")


def find_body_open(s, i):
    """From a position inside a signature, find the '{' that opens the body (skipping generics/parens/where)."""
    n = len(s)
    while i < n:
        j = _scan(s, i)
        if j != i:
            i = j
            continue
        c = s[i]
        if c in "([":
            i = match_brace(s, i)
            continue
        if c == "{":
            return i
        if c == ";":
            raise LostAnchor("item has no body")
        i += 1
    raise LostAnchor("no body")


def add_explicit_else(body):
    """R9: every `if` / `if let` without an `else` gets an explicit empty `else {}` (semantically the identity).
    Needed because the installed Verus resolves a conditionally moved value that carries a mutable borrow as if it had
    been dropped on both paths (`if b { consume(w); }` makes the consuming path contradictory): an unsoundness that the
    explicit else avoids.  Match guards (`pat if c =>`) are left alone."""
    out = []
    i, n, count = 0, len(body), 0
    while i < n:
        j = _scan(body, i)
        if j != i:
            out.append(body[i:j])
            i = j
            continue
        m = re.match(r"if\b", body[i:])
        if m and (i == 0 or not (body[i - 1].isalnum() or body[i - 1] == "_")):
            # find the `{` of the then-block at bracket depth 0; give up at `=>` (a match guard) or `;`
            k, ok = i + 2, False
            while k < n:
                kk = _scan(body, k)
                if kk != k:
                    k = kk
                    continue
                c = body[k]
                if c in "([":
                    k = match_brace(body, k)
                    continue
                if body.startswith("=>", k) or c == ";":
                    break
                if c == "{":
                    ok = True
                    break
                k += 1
            if ok:
                e = match_brace(body, k)
                t = _skip_ws_comments(body, e)
                if not re.match(r"else\b", body[t:]):
                    # recurse into the condition+block text first, then append the else
                    inner = add_explicit_else(body[k + 1:e - 1])
                    out.append(body[i:k + 1] + inner[0] + "}" + " else {}")
                    count += 1 + inner[1]
                    i = e
                    continue
                # has an else: keep scanning inside normally
        out.append(body[i])
        i += 1
    return "".join(out), count


# ------------------------------------------------------------------ locating items
def _impl_blocks(src, impl_name):
    out = []
    for m in re.finditer(r"^[ \t]*(?:unsafe\s+)?impl\b[^;{]*?\b%s\b[^;{]*\{" % re.escape(impl_name), src, re.M):
        head = m.group(0)
        # for `impl Trait for X`, require that impl_name is the last type named, or given as "Trait for X"
        start = m.end() - 1
        end = match_brace(src, start)
        out.append((m.start(), start, end, head))
    return out


def find_fn(src, name, impl=None, nth=0, trait=None):
    """Return (start, sig_end_brace_index, end) of `fn name` (attributes and visibility included in start)."""
    regions = [(0, 0, len(src), "")]
    if impl:
        regions = []
        for (a, b, e, head) in _impl_blocks(src, impl):
            is_trait = re.search(r"\bfor\b", head) is not None
            if trait:
                if not re.search(r"\b%s\b.*\bfor\b" % re.escape(trait), head):
                    continue
            elif is_trait and not re.search(r"\bfor\s+%s\b" % re.escape(impl), head):
                continue
            elif is_trait:
                continue
            regions.append((a, b, e, head))
        if not regions:
            raise LostAnchor("impl %s not found" % impl)
    hits = []
    for (a, b, e, head) in regions:
        for m in re.finditer(r"\bfn\s+%s\b" % re.escape(name), src[b:e]):
            pos = b + m.start()
            # make sure we are not inside a comment/string: cheap check on the line
            line_start = src.rfind("\n", 0, pos) + 1
            if "//" in src[line_start:pos]:
                continue
            # depth check: must be at depth 1 of the impl (or 0 at top level)
            depth = 0
            i = b
            while i < pos:
                j = _scan(src, i)
                if j != i:
                    i = j
                    continue
                if src[i] == "{":
                    depth += 1
                elif src[i] == "}":
                    depth -= 1
                i += 1
            if depth != (1 if impl else 0):
                continue
            # extend start backwards over qualifiers and attributes
            start = line_start
            while True:
                prev_end = start - 1
                prev_start = src.rfind("\n", 0, prev_end) + 1
                prev = src[prev_start:prev_end].strip()
                if prev.startswith("#[") or prev.startswith("///"):
                    start = prev_start
                else:
                    break
            body_open = find_body_open(src, pos)
            end = match_brace(src, body_open)
            hits.append((start, pos, body_open, end))
    if len(hits) <= nth:
        raise LostAnchor("fn %s%s (nth=%d) not found" % ((impl + "::") if impl else "", name, nth))
    return hits[nth]


LOG_RE = re.compile(r"^[ \t]*log::(?:trace|debug|info|warn|error)!\s*\(", re.M)


def drop_log_statements(body):
    out = []
    i = 0
    dropped = 0
    while True:
        m = LOG_RE.search(body, i)
        if not m:
            out.append(body[i:])
            break
        out.append(body[i:m.start()])
        p = body.index("(", m.start())
        e = match_brace(body, p)
        e = _skip_ws_comments(body, e) if body[e:e + 1] != ";" else e
        if body[e:e + 1] == ";":
            e += 1
        # swallow the trailing newline
        if body[e:e + 1] == "\n":
            e += 1
        i = e
        dropped += 1
    return "".join(out), dropped


def _split_top_level_comma(s):
    depth = 0
    i = 0
    n = len(s)
    while i < n:
        j = _scan(s, i)
        if j != i:
            i = j
            continue
        c = s[i]
        if c in "([{":
            depth += 1
        elif c in ")]}":
            depth -= 1
        elif c == "," and depth == 0:
            return s[:i], s[i + 1:]
        i += 1
    return s, None


def rewrite_asserts(body):
    n_rw = 0
    for macro in ("debug_assert_eq", "assert_eq", "debug_assert", "assert"):
        pat = re.compile(r"\b%s!\s*\(" % macro)
        i = 0
        out = []
        while True:
            m = pat.search(body, i)
            if not m:
                out.append(body[i:])
                break
            out.append(body[i:m.start()])
            p = m.end() - 1
            e = match_brace(body, p)
            inner = body[p + 1:e - 1]
            if macro.endswith("_eq"):
                a, rest = _split_top_level_comma(inner)
                b, _msg = _split_top_level_comma(rest)
                out.append("assert((%s) == (%s))" % (a.strip(), b.strip().rstrip(",").strip()))
            else:
                a, _msg = _split_top_level_comma(inner)
                out.append("assert(%s)" % a.strip())
            n_rw += 1
            i = e
        body = "".join(out)
    return body, n_rw


def strip_quals(sig):
    sig = re.sub(r"^\s*#\[[^\]]*\]\s*\n", "", sig, flags=re.M)
    sig = re.sub(r"^\s*///.*\n", "", sig, flags=re.M)
    sig = re.sub(r"\bpub(\s*\([^)]*\))?\s+", "", sig, count=1)
    sig = re.sub(r"\bconst\s+fn\b", "fn", sig)
    return sig


class Extracted:
    def __init__(self):
        self.text = ""
        self.notes = []
        self.fn_name = ""
        self.orig = ""


def _ws_regex(text):
    """the rewrite source matched modulo whitespace (so that a multi-line expression can be named on one line)"""
    toks = text.split()
    return re.compile(r"\s*".join(re.escape(t) for t in toks))


def apply_edits(fn_name, sig2, body2, rewrites, inserts, notes):
    for (old, new) in rewrites:
        if old.startswith("\x00w:"):
            # every occurrence of an identifier (a captured variable that became a `&mut` parameter of the wrapper)
            word = old[3:]
            rx = re.compile(r"(?<![\w.])%s\b" % re.escape(word))
            if not rx.search(body2):
                raise LostAnchor("%s: identifier not found: %r" % (fn_name, word))
            body2 = rx.sub(lambda _m: new, body2)
            notes.append("R6: identifier rewrite in %s: `%s` => `%s`" % (fn_name, word, new))
            continue
        if old.startswith("\x00q:"):
            # optional shape rewrite: applies where the shape occurs; if it does not occur the text goes to the verifier as it is
            rx = re.compile(old[3:], re.S)
            if rx.search(body2):
                body2 = rx.sub(new, body2)
                notes.append("R6: shape rewrite in %s: /%s/ => `%s`" % (fn_name, old[3:], new))
            continue
        if old.startswith("\x00r:"):
            rx = re.compile(old[3:], re.S)
            if not rx.search(body2):
                raise LostAnchor("%s: shape rewrite matches nothing: %r" % (fn_name, old[3:]))
            body2 = rx.sub(new, body2)
            notes.append("R6: shape rewrite in %s: /%s/ => `%s`" % (fn_name, old[3:], new))
            continue
        if old.startswith("\x00o:"):
            old = old[3:]
            if body2.count(old) + sig2.count(old) >= 1:
                body2 = body2.replace(old, new)
                sig2 = sig2.replace(old, new)
                notes.append("R6: rewrite in %s: `%s` => `%s`" % (fn_name, old, new))
            continue
        if body2.count(old) + sig2.count(old) < 1:
            rx = _ws_regex(old)
            if not rx.search(body2):
                raise LostAnchor("%s: rewrite source text not found: %r" % (fn_name, old))
            body2 = rx.sub(lambda _m: new, body2)
        else:
            body2 = body2.replace(old, new)
            sig2 = sig2.replace(old, new)
        notes.append("R6: rewrite in %s: `%s` => `%s`" % (fn_name, old, new))
    for (where, anchor, text) in inserts:
        if where == "start":
            body2 = "{\n" + text + body2[1:]
            continue
        if where in ("before@all", "after@all"):
            if body2.count(anchor) < 1:
                raise LostAnchor("%s: anchor %r not found" % (fn_name, anchor))
            out, k = "", 0
            while True:
                j = body2.find(anchor, k)
                if j < 0:
                    out += body2[k:]
                    break
                if where == "before@all":
                    ls = body2.rfind("\n", 0, j) + 1
                    out += body2[k:ls] + text + body2[ls:j + len(anchor)]
                else:
                    out += body2[k:j + len(anchor)] + "\n" + text
                k = j + len(anchor)
            body2 = out
            continue
        if where == "loopinv@all":
            if body2.count(anchor) < 1:
                raise LostAnchor("%s: anchor %r not found" % (fn_name, anchor))
            k = 0
            while True:
                k = body2.find(anchor, k)
                if k < 0:
                    break
                k2 = find_body_open(body2, k + len(anchor))
                head = body2[:k2].rstrip()
                body2 = head + "\n" + text + body2[k2:]
                k = len(head) + len(text) + 1
            continue
        first = where.endswith("@first")
        if first:
            where = where[:-6]
        cnt = body2.count(anchor)
        if cnt != 1 and not (first and cnt > 1):
            raise LostAnchor("%s: anchor %r occurs %d times (need exactly 1)" % (fn_name, anchor, cnt))
        k = body2.index(anchor)
        if where == "before":
            ls = body2.rfind("\n", 0, k) + 1
            body2 = body2[:ls] + text + body2[ls:]
        elif where == "loopinv":
            # insert before the `{` that opens the loop body following the anchor (anchor = loop header prefix)
            k2 = find_body_open(body2, k + len(anchor))
            body2 = body2[:k2].rstrip() + "\n" + text + body2[k2:]
        elif where == "loopend":
            # at the end of the body of the loop whose header starts with the anchor: the text does not depend on the
            # statements of the body (an edit of those reaches the verifier instead of losing the anchor)
            k2 = find_body_open(body2, k + len(anchor))
            k3 = match_brace(body2, k2) - 1
            body2 = body2[:k3].rstrip() + "\n" + text + body2[k3:]
        elif where == "loopstart":
            # at the start of the body of the loop whose header starts with the anchor (same independence as loopend)
            k2 = find_body_open(body2, k + len(anchor))
            body2 = body2[:k2 + 1] + "\n" + text + body2[k2 + 1:]
        elif where == "after":
            k2 = k + len(anchor)
            body2 = body2[:k2] + "\n" + text + body2[k2:]
        else:
            raise ValueError(where)
    return sig2, body2


def extract_fn(repo, file, name, impl=None, nth=0, ret=None, spec="", inserts=(), rewrites=(), as_name=None,
               trait=None, keep_asserts=False, normalize=None):
    src = open(os.path.join(repo, file)).read()
    start, fnpos, body_open, end = find_fn(src, name, impl=impl, nth=nth, trait=trait)
    sig = src[start:body_open]
    body = src[body_open:end]
    ex = Extracted()
    ex.orig = src[start:end]
    ex.fn_name = (impl + "::" if impl else "") + name
    sig2 = strip_quals(sig).rstrip()
    if as_name:
        sig2 = re.sub(r"\bfn\s+%s\b" % re.escape(name), "fn " + as_name, sig2, count=1)
    if ret:
        # the return arrow is the one after the parameter list (parameter types may contain `->` themselves)
        po = sig2.find("(", sig2.find("fn "))
        pc = match_brace(sig2, po) if po >= 0 else 0
        m = re.search(r"->\s*(.+?)\s*(where\b.*)?$", sig2[pc:], re.S)
        if not m:
            raise LostAnchor("%s: no return type to name" % ex.fn_name)
        sig2 = sig2[:pc + m.start()] + "-> (%s: %s)" % (ret, m.group(1).strip()) + ((" " + m.group(2)) if m.group(2) else "")
    body2, nlog = drop_log_statements(body)
    if nlog:
        ex.notes.append("R2: dropped %d log statement(s) in %s" % (nlog, ex.fn_name))
    if not keep_asserts:
        body2, nas = rewrite_asserts(body2)
        if nas:
            ex.notes.append("R3: %d exec assert(s) became proof obligations in %s" % (nas, ex.fn_name))
    body2, nerr = rewrite_error_payloads(body2)
    if nerr:
        ex.notes.append("R4: %d error payload expression(s) replaced by mk_err() in %s" % (nerr, ex.fn_name))
    sig2, body2 = apply_edits(ex.fn_name, sig2, body2, rewrites, inserts, ex.notes)
    if normalize == "ifelse":
        body2, nif = add_explicit_else(body2)
        if nif:
            ex.notes.append("R9: %d `if` without `else` got an explicit empty `else {}` in %s (identity; avoids a Verus resolution unsoundness for conditionally moved borrows)" % (nif, ex.fn_name))
    ex.text = sig2 + "\n" + spec + body2 + "\n"
    return ex


def extract_struct(repo, file, name, keep=None, derive=None):
    text, notes = _extract_struct(repo, file, name, keep)
    if derive:
        text = "#[derive(%s)]\n" % ", ".join(derive) + text
        notes = notes + ["R1: struct %s: derives re-stated as #[derive(%s)] (Structural = Verus' name for field-wise equality)" % (name, ", ".join(derive))]
    return text, notes


def _extract_struct(repo, file, name, keep=None):
    src = open(os.path.join(repo, file)).read()
    m = re.search(r"^[ \t]*(?:pub(?:\([^)]*\))?\s+)?struct\s+%s\b" % re.escape(name), src, re.M)
    if not m:
        raise LostAnchor("struct %s not found in %s" % (name, file))
    i = m.end()
    # tuple struct or braces
    j = _skip_ws_comments(src, i)
    # skip generics
    if src[j] == "<":
        depth = 0
        while True:
            if src[j] == "<":
                depth += 1
            elif src[j] == ">":
                depth -= 1
                if depth == 0:
                    j += 1
                    break
            j += 1
        j = _skip_ws_comments(src, j)
    if src[j] == "(":
        e = match_brace(src, j)
        e = src.index(";", e) + 1
        text = src[m.start():e]
        text = re.sub(r"\bpub(\s*\([^)]*\))?\s+", "", text)
        return text.strip() + "\n", []
    if src[j] == "{":
        e = match_brace(src, j)
        inner = src[j + 1:e - 1]
        notes = []
        fields = []
        for fm in re.finditer(r"^\s*(?:pub(?:\([^)]*\))?\s+)?(\w+)\s*:\s*([^\n]+?),?\s*(?://.*)?$", inner, re.M):
            fname, ftype = fm.group(1), fm.group(2).rstrip(",")
            if keep is None or fname in keep:
                fields.append("    %s: %s," % (fname, ftype))
            else:
                notes.append("R5: struct %s: field `%s: %s` dropped (no extracted body mentions it)" % (name, fname, ftype))
        if keep:
            for k in keep:
                if not any(f.strip().startswith(k + ":") for f in fields):
                    raise LostAnchor("struct %s: field %s not found" % (name, k))
        return "struct %s {\n%s\n}\n" % (name, "\n".join(fields)), notes
    raise LostAnchor("struct %s: unsupported form" % name)


def extract_enum(repo, file, name, derive=None):
    src = open(os.path.join(repo, file)).read()
    m = re.search(r"^[ \t]*(?:pub(?:\([^)]*\))?\s+)?enum\s+%s\b[^{;]*\{" % re.escape(name), src, re.M)
    if not m:
        raise LostAnchor("enum %s not found in %s" % (name, file))
    e = match_brace(src, m.end() - 1)
    text = src[m.start():e]
    text = re.sub(r"^\s*///.*\n", "", text, flags=re.M)
    text = re.sub(r"^\s*#\[[^\]]*\]\s*\n", "", text, flags=re.M)
    text = re.sub(r"^\s*pub(\s*\([^)]*\))?\s+enum", "enum", text)
    if derive:
        # only derives the source itself carries may be re-stated (Structural = Verus' name for derived field-wise equality)
        pre = src[max(0, m.start() - 200):m.start()]
        dm = re.findall(r"#\[derive\(([^)]*)\)\]", pre)
        have = set(x.strip() for x in (dm[-1].split(",") if dm else []))
        for d in derive:
            if d != "Structural" and d not in have:
                raise LostAnchor("enum %s: derive %s not present in the source" % (name, d))
        text = "#[derive(%s)]\n" % ", ".join(derive) + text
    return text.strip() + "\n"


ERR_RE = re.compile(r'(?:crate::error::)?Error::\w+\s*\(\s*(?:format!\s*\(|"[^"\n]*"\s*\.\s*(?:to_string|into)\s*\(\s*\)\s*\))')


def rewrite_error_payloads(body):
    """R4: `Error::X(format!(..))` (the payload is text) becomes a call to the uninterpreted `mk_err()`."""
    out, i, n = [], 0, 0
    while True:
        m = ERR_RE.search(body, i)
        if not m:
            out.append(body[i:])
            break
        out.append(body[i:m.start()])
        p = body.index("(", m.start())
        e = match_brace(body, p)
        out.append("mk_err()")
        i = e
        n += 1
    return "".join(out), n


def _const_src(src, name, file):
    m = re.search(r"^[ \t]*(?:pub(?:\([^)]*\))?\s+)?const\s+%s\s*:\s*([^=;]+?)\s*=\s*([^;]*);" % re.escape(name), src, re.M | re.S)
    if not m:
        raise LostAnchor("const %s not found in %s" % (name, file))
    return m


def fold_const(src, name, file, depth=0):
    """R7: evaluate a constant expression built from integer literals, other constants of the same file,
    + - * / << >> and `as <int type>` casts."""
    if depth > 8:
        raise LostAnchor("const %s: too deep" % name)
    m = _const_src(src, name, file)
    expr = m.group(2)
    e = re.sub(r"\bas\s+(?:usize|u8|u16|u32|u64|i32|i64)\b", "", expr)
    e = re.sub(r"\b(\d[\d_]*)(?:usize|u8|u16|u32|u64|i32|i64)\b", r"\1", e)
    e = e.replace("_", "") if re.fullmatch(r"[\d_\s]+", e) else e

    def sub(mm):
        w = mm.group(0)
        if re.fullmatch(r"0x[0-9a-fA-F_]+|\d[\d_]*", w):
            return w.replace("_", "")
        return str(fold_const(src, w, file, depth + 1)[0])
    e2 = re.sub(r"0x[0-9a-fA-F_]+|\b[A-Za-z_]\w*\b|\d[\d_]*", sub, e)
    if not re.fullmatch(r"[\d\sxa-fA-F+\-*/<>()]+", e2):
        raise LostAnchor("const %s: expression not foldable: %s" % (name, expr))
    val = eval(e2.replace("/", "//"), {"__builtins__": {}})
    return val, m.group(1).strip(), expr.strip()


def extract_const(repo, file, name, fold=False, as_name=None):
    src = open(os.path.join(repo, file)).read()
    if fold:
        val, ty, expr = fold_const(src, name, file)
        return "const %s: %s = %d; // R7 folded from %s::%s = %s\n" % (as_name or name, ty, val, file, name, " ".join(expr.split()))
    m = _const_src(src, name, file)
    text = re.sub(r"^\s*pub(\s*\([^)]*\))?\s+", "", m.group(0).strip())
    return text + "\n"


# ------------------------------------------------------------------ template expansion
DIRECTIVE = re.compile(r"/\*@extract\s+(fn|struct|const|enum|fragment)\b(.*?)@\*/", re.S)


def extract_fragment(repo, file, name, impl, frm, to, nth=0, from_nth=None):
    """R8: the statements of a function body from the line containing `frm` up to (not including) the line containing
    `to`, verbatim (after R2/R3/R4), to be wrapped by a hand-written function in the template."""
    src = open(os.path.join(repo, file)).read()
    start, fnpos, body_open, end = find_fn(src, name, impl=impl, nth=nth)
    body = src[body_open:end]
    if from_nth is not None:
        # the anchor text occurs several times (twin branches): the from_nth-th occurrence is meant; the other occurrences
        # are masked (they lie outside the fragment, which must not contain a second one)
        parts = body.split(frm)
        if len(parts) - 1 <= from_nth:
            raise LostAnchor("%s::%s: occurrence %d of fragment anchor not found (%d)" % (impl, name, from_nth, len(parts) - 1))
        masked = frm[:-1] + "\x01"
        out = parts[0]
        for i, part in enumerate(parts[1:]):
            out += (frm if i == from_nth else masked) + part
        body = out
    if to == "@block_end":
        # up to the end of the innermost block enclosing the `frm` line (robust against edits inside the fragment)
        if body.count(frm) != 1:
            raise LostAnchor("%s::%s: fragment anchor not found exactly (%d)" % (impl, name, body.count(frm)))
        a = body.rfind("\n", 0, body.index(frm)) + 1
        b = None
        k = a
        while True:
            k = body.rfind("{", 0, k)
            if k < 0:
                raise LostAnchor("%s::%s: no enclosing block" % (impl, name))
            try:
                e = match_brace(body, k)
            except Exception:
                continue
            if e > a:
                b = body.rfind("\n", 0, e - 1) + 1
                break
        frag = body[a:b]
        if "\x01" in frag:
            raise LostAnchor("%s::%s: fragment contains a second occurrence of its anchor" % (impl, name))
        frag, _n = drop_log_statements(frag)
        frag, _m = rewrite_asserts(frag)
        frag, _k = rewrite_error_payloads(frag)
        return frag, src[start:end]
    if frm.startswith("@after_block:"):
        # start right behind the block statement (loop, if) whose header line contains the literal: the fragment then does
        # not depend on the text of its own first statement (an edit that removes that statement reaches the verifier)
        lit = frm[len("@after_block:"):]
        if body.count(lit) != 1 or body.count(to) < 1:
            raise LostAnchor("%s::%s: fragment anchors not found exactly (%d, %d)" % (impl, name, body.count(lit), body.count(to)))
        eol = body.find("\n", body.index(lit))
        k = body.rfind("{", body.index(lit), eol)
        if k < 0:
            raise LostAnchor("%s::%s: `%s` does not open a block" % (impl, name, lit))
        e = match_brace(body, k)
        a = body.find("\n", e) + 1
        b = body.rfind("\n", 0, body.index(to, a)) + 1
        frag = body[a:b]
        frag, _n = drop_log_statements(frag)
        frag, _m = rewrite_asserts(frag)
        frag, _k = rewrite_error_payloads(frag)
        return frag, src[start:end]
    if body.count(frm) != 1 or body.count(to) < 1:
        raise LostAnchor("%s::%s: fragment anchors not found exactly (%d, %d)" % (impl, name, body.count(frm), body.count(to)))
    a = body.rfind("\n", 0, body.index(frm)) + 1
    b = body.rfind("\n", 0, body.index(to, a)) + 1
    frag = body[a:b]
    frag, _n = drop_log_statements(frag)
    frag, _m = rewrite_asserts(frag)
    frag, _k = rewrite_error_payloads(frag)
    return frag, src[start:end]


def _parse_kv(s):
    out = {}
    for m in re.finditer(r"(\w+)=(\"[^\"]*\"|\S+)", s):
        out[m.group(1)] = m.group(2).strip('"')
    return out


def _parse_fn_block(block):
    """block = text after the header line. Sections: spec:, insert before "x":, insert after "x":, insert start:, rewrite."""
    spec = ""
    inserts = []
    rewrites = []
    cur = None
    buf = []

    def flush():
        nonlocal spec, cur, buf
        if cur is None:
            return
        text = "\n".join(buf).rstrip() + "\n"
        if cur[0] == "spec":
            spec = text
        else:
            inserts.append((cur[0], cur[1], text))
        cur, buf = None, []

    for line in block.split("\n"):
        st = line.strip()
        if st == "spec:":
            flush()
            cur = ("spec", None)
            continue
        m = re.match(r'insert (before|after|loopinv|loopend|loopstart)( first| all)? "(.*)":$', st)
        if m:
            flush()
            # `first`: the anchor may occur several times, the first occurrence is meant (robust against edits that add more)
            # `all` (loopinv only): the same clauses go to every loop whose header starts with the anchor (twin loops)
            cur = (m.group(1) + ("@first" if m.group(2) == " first" else "@all" if m.group(2) == " all" else ""), m.group(3).replace('\\"', '"'))
            continue
        if st == "insert start:":
            flush()
            cur = ("start", None)
            continue
        m = re.match(r'rewrite "(.*)" => "(.*)"$', st)
        if m:
            flush()
            rewrites.append((m.group(1).replace('\\"', '"'), m.group(2).replace('\\"', '"')))
            continue
        m = re.match(r'rewrite_re "(.*)" => "(.*)"$', st)
        if m:
            # shape rewrite: a regular expression (DOTALL) with groups; the sub-expressions it captures are kept verbatim, so
            # an edit inside them reaches the verifier instead of losing the anchor
            flush()
            rewrites.append(("\x00r:" + m.group(1), m.group(2)))
            continue
        m = re.match(r'rewrite_re_opt "(.*)" => "(.*)"$', st)
        if m:
            flush()
            rewrites.append(("\x00q:" + m.group(1), m.group(2)))
            continue
        m = re.match(r'rewrite_opt "(.*)" => "(.*)"$', st)
        if m:
            # a path normalisation that applies wherever the text occurs and is not an anchor (absent => nothing to do)
            flush()
            rewrites.append(("\x00o:" + m.group(1).replace('\\"', '"'), m.group(2).replace('\\"', '"')))
            continue
        m = re.match(r'rewrite_word "(.*)" => "(.*)"$', st)
        if m:
            flush()
            rewrites.append(("\x00w:" + m.group(1), m.group(2)))
            continue
        if cur is not None:
            buf.append(line)
    flush()
    return spec, inserts, rewrites


def expand(template_text, repo):
    """Returns (generated_text, notes, fn_spans[(fn_name, start_line, end_line)], originals{fn: text})."""
    notes = []
    pieces = []
    spans = []
    originals = {}
    pos = 0
    out_len_lines = 0
    # `/*@include name.inc@*/`: shared contract text (e.g. the std HashMap contract) kept in one file under contracts/verus
    tdir = os.path.join(os.path.dirname(os.path.dirname(os.path.abspath(__file__))), "contracts", "verus")
    template_text = re.sub(r"/\*@include\s+([\w.\-]+)\s*@\*/", lambda mm: open(os.path.join(tdir, mm.group(1))).read(), template_text)

    def emit(t):
        nonlocal out_len_lines
        pieces.append(t)
        out_len_lines += t.count("\n")

    for m in DIRECTIVE.finditer(template_text):
        emit(template_text[pos:m.start()])
        kind = m.group(1)
        rest = m.group(2)
        header, _, block = rest.partition("\n")
        kv = _parse_kv(header)
        if kind == "fn":
            spec, inserts, rewrites = _parse_fn_block(block)
            ex = extract_fn(repo, kv["file"], kv["name"], impl=kv.get("impl"), nth=int(kv.get("nth", 0)),
                            ret=kv.get("ret"), spec=spec, inserts=inserts, rewrites=rewrites, as_name=kv.get("as"),
                            trait=kv.get("trait"), normalize=kv.get("normalize"))
            notes += ex.notes
            start_line = out_len_lines + 1
            emit(ex.text)
            spans.append((ex.fn_name, start_line, out_len_lines))
            originals[ex.fn_name] = ex.orig
        elif kind == "struct":
            keep = kv.get("keep")
            derive = kv.get("derive")
            text, n2 = extract_struct(repo, kv["file"], kv["name"], keep.split(",") if keep else None,
                                      derive.split(",") if derive else None)
            notes += n2
            emit(text)
        elif kind == "enum":
            emit(extract_enum(repo, kv["file"], kv["name"], kv["derive"].split(",") if kv.get("derive") else None))
        elif kind == "fragment":
            hdr_kv = dict(kv)
            fm = re.search(r'from="((?:[^"\\]|\\.)*)"', header)
            tm = re.search(r'to="((?:[^"\\]|\\.)*)"', header)
            frag, orig = extract_fragment(repo, kv["file"], kv["name"], kv.get("impl"), fm.group(1), tm.group(1), int(kv.get("nth", 0)), from_nth=(int(kv["from_nth"]) if "from_nth" in kv else None))
            fname = (kv.get("impl", "") + "::" if kv.get("impl") else "") + kv["name"]
            _spec, f_inserts, f_rewrites = _parse_fn_block(block)
            _sig, frag = apply_edits(fname + "[fragment]", "", frag, f_rewrites, f_inserts, notes)
            if kv.get("normalize") == "ifelse":
                frag, nif = add_explicit_else(frag)
                if nif:
                    notes.append("R9: %d `if` without `else` got an explicit empty `else {}` in %s[fragment]" % (nif, fname))
            notes.append("R8: fragment of %s (from `%s` up to `%s`) extracted verbatim and wrapped by the template" % (fname, fm.group(1), tm.group(1)))
            start_line = out_len_lines + 1
            emit(frag)
            spans.append((fname + "[fragment]", start_line, out_len_lines))
            originals[fname + "[fragment]"] = orig
        elif kind == "const":
            emit(extract_const(repo, kv["file"], kv["name"], fold=kv.get("fold") == "1", as_name=kv.get("as")))
            if kv.get("fold") == "1":
                notes.append("R7: constant %s folded to a literal by the extractor" % kv["name"])
        pos = m.end()
    emit(template_text[pos:])
    return "".join(pieces), notes, spans, originals
