"""Check driver: scratch copy -> inject contracts -> Kani / Verus -> verdict -> evidence."""
import json, os, re, shutil, sys, time

import scratch, kani, units

VERIF = scratch.VERIF
# evidence of a run against anything but /repo (seeded-change experiments, VERIF_REPO) never lands in /verif/evidence
EVID = os.path.join(VERIF, "evidence") if os.environ.get("VERIF_REPO", "/repo") == "/repo" else os.path.join(VERIF, ".cache", "evidence-scratch")
REPLAY = os.path.join(VERIF, "replay")


class Undecided(Exception):
    pass


def load_known():
    p = os.path.join(VERIF, "known_findings.json")
    if not os.path.exists(p):
        return {"findings": [], "fixed": []}
    return json.load(open(p))


def scan_trusted(text):
    """Mechanical scan of a generated/contract text for assumption-introducing constructs."""
    pats = [r"kani::stub\(([^)]*)\)", r"kani::assume", r"external_body", r"assume_specification",
            r"\badmit\(", r"\bassume\("]
    out = {}
    for p in pats:
        for m in re.finditer(p, text):
            k = m.group(0) if m.groups() == () else "kani::stub(%s)" % m.group(1).split(",")[0].strip()
            out[k] = out.get(k, 0) + 1
    return out


def prepare_kani_scratch(modules, keep=False):
    d, repo = scratch.make_scratch()
    # stacked #[kani::stub] attributes expand recursively: raise the macro recursion limit for cfg(kani) builds only
    lib = os.path.join(repo, "src/lib.rs")
    open(lib, "w").write('#![cfg_attr(kani, recursion_limit = "1024")]\n' + open(os.path.join(scratch.REPO, "src/lib.rs")).read())
    scratch.append_crate_module(repo, "verif_stubs", open(os.path.join(VERIF, "contracts/kani/stubs.rs")).read())
    for m in modules:
        scratch.append_child_module(repo, m.target, m.mod_name, m.text(), pub=(m.key in ("log", "table", "index", "column", "btree_mod")))
    kani.warm_target(repo)
    return d, repo


def run_check(prop, tier, keep=False, only=None, jobs=16):
    t0 = time.time()
    if prop not in units.PROPS:
        raise Undecided("property %s is not claimed (see MANIFEST.not_applicable)" % prop)
    cfg = units.PROPS[prop]
    known = load_known()
    os.makedirs(EVID, exist_ok=True)
    os.makedirs(REPLAY, exist_ok=True)

    # ------------------------------------------------------------ select harnesses
    sel = []  # (module, H)
    for u in cfg.get("kani_units", []):
        for m in units.kmodule_of_unit(u):
            for h in m.harnesses:
                if h.unit == u and tier in h.tiers:
                    sel.append((m, h))
    if only:
        keys = only.split(",")
        sel = [(m, h) for (m, h) in sel if any(k in h.name or k == h.unit for k in keys)]
    modules = []
    for m, _ in sel:
        for dm in tuple(m.deps) + (m,):
            if dm not in modules:
                modules.append(dm)

    violations = []  # (obligation, harness, replay_path, has_input)
    known_hits = []
    undecided = []
    harness_reports = []
    total_checks = 0
    discharged = 0
    solver_s = 0.0
    symex_s = 0.0
    cmds = []
    trusted_scan = {}
    verus_reports = []

    d = None
    try:
        if sel:
            d, repo = prepare_kani_scratch(modules, keep)
            for m in modules:
                for k, v in scan_trusted(m.text()).items():
                    trusted_scan[k] = trusted_scan.get(k, 0) + v
            # group by cbmc_args
            groups = {}
            for m, h in sel:
                groups.setdefault(m.cbmc_args, []).append((m, h))
            # kani-driver keeps every harness' output in memory (537 harnesses: 55 GB RSS, killed by the OOM killer), so
            # one invocation handles at most KANI_CHUNK harnesses
            KANI_CHUNK = 100
            chunks = []
            for cbmc_args, items0 in groups.items():
                for k in range(0, len(items0), KANI_CHUNK):
                    chunks.append((cbmc_args, items0[k:k + KANI_CHUNK]))
            for cbmc_args, items in chunks:
                names = [m.full_name(h.name) for m, h in items]
                res, log, compile_ok, wall, cmd = kani.run(
                    repo, names, jobs=jobs, harness_timeout=cfg.get("harness_timeout", 420),
                    extra_flags=["--exact"], cbmc_args=cbmc_args,
                    log_prefix=os.path.join(d, "kani-%d" % len(cmds)))
                cmds.append(" ".join(cmd[:14]) + " ... (%d harnesses)" % len(names))
                try:
                    ld = os.path.join(scratch.CACHE, "logs")
                    os.makedirs(ld, exist_ok=True)
                    for ext in (".log", ".json"):
                        src_f = os.path.join(d, "kani-%d%s" % (len(cmds) - 1, ext))
                        if os.path.exists(src_f):
                            shutil.copy(src_f, os.path.join(ld, "%s-%s-%d%s" % (prop, tier, len(cmds) - 1, ext)))
                except Exception:
                    pass
                if not compile_ok:
                    sys.stdout.write(log[-3000:])
                    raise Undecided("contract module no longer compiles against /repo (lost anchor / API change)")
                for (m, h), full in zip(items, names):
                    hr = res[full]
                    hr.name = h.name
                    rep = hr.to_json()
                    rep.update({"unit": h.unit, "kind": h.kind, "shape": h.shape, "bound": h.bound})
                    harness_reports.append(rep)
                    solver_s += hr.stats.get("runtime_solver_s", 0) or 0
                    symex_s += hr.stats.get("runtime_symex_s", 0) or 0
                    if h.kind == "canary":
                        if hr.status == "failure" and any(f[0] == "CANARY" for f in hr.failed):
                            continue
                        undecided.append("canary %s was not refuted (status %s): preconditions vacuous?" % (h.name, hr.status))
                        continue
                    if hr.status == "success":
                        total_checks += hr.checks
                        discharged += hr.checks
                        bad = [c for c in hr.covers if c[1] != "Satisfied" and not c[0].startswith("opt:")]
                        if bad:
                            undecided.append("cover not satisfied in %s: %s" % (h.name, bad[0][0]))
                        continue
                    if hr.status == "failure":
                        real = [f for f in hr.failed if f[1] == "Failure" and "unwinding assertion" not in f[0]]
                        if any("is not currently supported" in f[0] for f in hr.failed):
                            # the code under proof reached a construct Kani does not model (a tool limit, not a defect)
                            undecided.append("%s: reached a construct Kani does not support: %s" % (h.name, [f[0] for f in hr.failed if "not currently supported" in f[0]][0][:90]))
                            continue
                        if not real or any("unwinding assertion" in f[0] for f in hr.failed):
                            # beyond the unwinding bound CBMC cuts paths: nothing else it reports for this harness is reliable
                            undecided.append("%s: an unwinding assertion failed (bound too small)" % h.name)
                            continue
                        total_checks += hr.checks
                        discharged += hr.checks - len(hr.failed)
                        for f in real:
                            obl = f[0] if re.match(r"U\d+", f[0]) else "%s.implicit[%s]" % (h.unit, f[0][:60])
                            violations.append({"obligation": obl, "harness": h.name, "module": m, "detail": f, "harness_unit": h.unit})
                        continue
                    undecided.append("%s: %s" % (h.name, hr.status))
            # ---------------------------------------------------- alternative groups: violated only if every member fails
            alt_of = {h.name: h.alt for (_m, h) in sel if getattr(h, "alt", None)}
            failed_h = {v["harness"] for v in violations}
            for g in set(alt_of.values()):
                members = [n for n, a in alt_of.items() if a == g]
                if not all(n in failed_h for n in members):
                    dropped = [v for v in violations if alt_of.get(v["harness"]) == g]
                    if dropped:
                        print("NOTE: alternative group %s: %s failed but %s holds -- the group's obligation stands" % (
                            g, sorted({v["harness"] for v in dropped}), sorted(set(members) - failed_h)))
                    violations = [v for v in violations if alt_of.get(v["harness"]) != g]
            # ---------------------------------------------------- replay failures natively
            seen = set()
            # replay at most two failing harnesses natively (the cheapest ones); the others share the report
            order = {r["harness"]: r["duration_s"] for r in harness_reports}
            budget = sorted({v["harness"] for v in violations}, key=lambda h: order.get(h, 0))[:2]
            for v in sorted(violations, key=lambda v: order.get(v["harness"], 0)):
                if v["harness"] not in budget:
                    first = [x for x in violations if "replay" in x]
                    v["replay"] = first[0]["replay"] if first else os.path.join(REPLAY, "%s-%s.rs" % (prop, v["harness"]))
                    v["has_input"] = first[0]["has_input"] if first else False
                    continue
                if v["harness"] in seen:
                    v["replay"] = [x for x in violations if x["harness"] == v["harness"] and "replay" in x][0]["replay"]
                    v["has_input"] = [x for x in violations if x["harness"] == v["harness"] and "has_input" in x][0]["has_input"]
                    continue
                seen.add(v["harness"])
                m = v["module"]
                path = os.path.join(REPLAY, "%s-%s.rs" % (prop, v["harness"]))
                test_src, native_failed, out = kani.playback(
                    repo, m.target, m.mod_name, m.full_name(v["harness"]), extra_flags=["--exact"],
                    cbmc_args=m.cbmc_args)
                with open(path, "w") as f:
                    f.write("// property %s, failed obligation(s) in harness %s:\n" % (prop, v["harness"]))
                    for x in violations:
                        if x["harness"] == v["harness"]:
                            f.write("//   %s  (%s:%s)\n" % (x["obligation"], x["detail"][2], x["detail"][3]))
                    f.write("// Kani concrete playback test (paste into the harness module; run with\n")
                    f.write("//   cargo kani playback -Z concrete-playback -- <test name>):\n")
                    f.write(test_src or "// (no concrete test produced)\n")
                    f.write("\n/* native replay on the real code: %s\n%s\n*/\n" % (
                        {True: "FAILED (counterexample reproduces)", False: "passed (lives inside a stubbed contract)",
                         None: "not run"}[native_failed], (out or "").replace("*/", "* /")))
                v["replay"] = path
                # a native replay is only meaningful for harnesses that observe the real code directly; harnesses that
                # observe it through recorder / contract stubs (not applied in a native run) carry the concrete values
                # in the replay file but are reported as no-failing-input-found
                v["has_input"] = bool(native_failed) and v["harness_unit"] in units.NATIVE_REPLAY_UNITS
    finally:
        if d and not keep:
            scratch.remove_scratch(d)
        elif d:
            if d in scratch._live:
                scratch._live.remove(d)
            print("scratch kept at", d)

    # ------------------------------------------------------------ verus units
    import verus, syntactic
    vjobs = [("verus", vu) for vu in cfg.get("verus_units", [])] + [("syn", x) for x in cfg.get("syntactic", [])]
    for kind_, vu in vjobs:
        if only and not any(k == vu or k in vu for k in only.split(",")):
            continue
        rep = verus.run_unit(vu) if kind_ == "verus" else syntactic.CHECKS[vu]()
        verus_reports.append(rep)
        cmds.append(rep["cmd"])
        if rep["status"] == "undecided":
            undecided.append("verus %s: %s" % (vu, rep["reason"]))
            continue
        total_checks += rep["obligations"]
        discharged += rep["verified"]
        solver_s += rep.get("smt_s", 0)
        for k, v in rep.get("trusted_scan", {}).items():
            trusted_scan[k] = trusted_scan.get(k, 0) + v
        for fobl in rep["failed"]:
            path = os.path.join(REPLAY, "%s-%s.txt" % (prop, re.sub(r"[^\w.\-]", "_", fobl["obligation"])))
            with open(path, "w") as f:
                f.write("property %s\nfailed obligation: %s\nclause: %s\nfunction: %s\n\n--- verus output ---\n%s\n" % (
                    prop, fobl["obligation"], fobl.get("clause", ""), fobl.get("function", ""), fobl.get("diag", "")))
                f.write("\n--- extracted function text ---\n%s\n" % fobl.get("text", ""))
            violations.append({"obligation": fobl["obligation"], "harness": "verus:" + vu, "replay": path,
                               "has_input": False, "detail": (fobl.get("clause", ""), "Failure", None, None)})

    # ------------------------------------------------------------ verdict
    wall = time.time() - t0
    new_viol = []
    for v in violations:
        kf = [k for k in known.get("findings", []) if k["property"] == prop and k["obligation"] == v["obligation"]
              and (not k.get("harness") or k["harness"] == v["harness"])]
        if kf:
            known_hits.append((v, kf[0]))
        else:
            new_viol.append(v)
    rc = 0
    if undecided:
        rc = 2
    if new_viol:
        rc = 1

    # ------------------------------------------------------------ evidence
    if not only:
        write_evidence(prop, tier, cfg, harness_reports, verus_reports, total_checks, discharged, solver_s, symex_s,
                       cmds, trusted_scan, wall, new_viol, known_hits, undecided)

    # ------------------------------------------------------------ output
    print("property %s tier %s: %d harness(es), %d verus unit(s), obligations %d, discharged %d, wall %.1fs" % (
        prop, tier, len(harness_reports), len(verus_reports), total_checks, discharged, wall))
    for r in harness_reports:
        print("  kani  %-28s %-8s %6.1fs checks=%d %s" % (r["harness"], r["status"], r["duration_s"], r["checks"],
                                                         ("[%s]" % r["kind"]) if r["kind"] != "proof" else ""))
    for r in verus_reports:
        print("  verus %-28s %-8s %6.1fs verified=%s errors=%s" % (r["unit"], r["status"], r.get("wall_s", 0),
                                                                   r.get("verified"), r.get("errors")))
    for u in undecided:
        print("UNDECIDED: %s" % u)
    for v, k in known_hits:
        print("KNOWN-FINDING: property=%s %s" % (prop, k["what"]))
    done = set()
    for v in new_viol:
        key = (v["replay"])
        print("FAILED-OBLIGATION property=%s obligation=%s harness=%s" % (prop, v["obligation"], v["harness"]))
        if key in done:
            continue
        done.add(key)
        print("VIOLATION property=%s replay=%s%s" % (prop, v["replay"], "" if v.get("has_input") else " no-failing-input-found"))
    return rc


def write_evidence(prop, tier, cfg, hreps, vreps, total, discharged, solver_s, symex_s, cmds, trusted_scan, wall,
                   new_viol, known_hits, undecided):
    meta = units.PROPS[prop]
    unit_ids = list(meta.get("kani_units", [])) + [v for v in meta.get("verus_units", [])]
    functions = []
    assumes = []
    for u in unit_ids:
        um = units.UNIT_META.get(u.split(":")[0], {})
        for f in um.get("functions", []):
            if f not in functions:
                functions.append(f)
        for a in um.get("assumes", []):
            if a not in assumes:
                assumes.append(a)
    bounded = [r for r in hreps if r["kind"] == "bounded"]
    proofs = [r for r in hreps if r["kind"] == "proof"]
    named = {}
    for r in hreps:
        for k, v in r["named_obligations"].items():
            if k != "CANARY":
                named.setdefault(k, []).append(v)
    for r in vreps:
        for k in r.get("named", []):
            named.setdefault(k, []).append("Success" if k not in [f["obligation"] for f in r.get("failed", [])] else "Failure")
    samples = []
    for r in hreps[:6]:
        samples.append({"backend": "kani", "harness": r["harness"], "shape": r["shape"], "status": r["status"],
                        "checks": r["checks"], "named_obligations": sorted(r["named_obligations"].keys())[:12]})
    for r in vreps[:4]:
        samples.append({"backend": "verus", "unit": r["unit"], "functions": r.get("functions"),
                        "verified": r.get("verified"), "named_obligations": r.get("named", [])[:12]})
    trusted = list(meta.get("trusted_base", [])) + assumes
    trusted += ["mechanical scan: %s x%d" % (k, v) for k, v in sorted(trusted_scan.items())]
    level = meta["level"]
    expl = meta.get("explanation", "")
    cov = {
        "obligations": total,
        "discharged": discharged,
        "checker_cmd": " ; ".join(cmds) if cmds else "none",
        "trusted_base": trusted,
        "explanation": expl,
        "functions_under_contract": functions,
        "named_obligations": {k: ("Success" if all(x == "Success" for x in v) else "Failure") for k, v in sorted(named.items())},
        "named_obligation_count": len(named),
        "backends": {
            "kani": {"harnesses": len(hreps), "proof_harnesses": len(proofs), "bounded_harnesses": len(bounded),
                     "cbmc_checks": sum(r["checks"] for r in hreps if r["kind"] != "canary"),
                     "solver_s": round(solver_s - sum(r.get("smt_s", 0) for r in vreps), 2), "symex_s": round(symex_s, 2)},
            "verus": {"units": len(vreps), "obligations": sum(r.get("obligations", 0) for r in vreps),
                      "verified": sum(r.get("verified", 0) for r in vreps),
                      "smt_s": round(sum(r.get("smt_s", 0) for r in vreps), 2)},
        },
        "bounded": [{"harness": r["harness"], "bound": r["bound"]} for r in bounded],
        "not_counted_as_proved": [r["harness"] for r in bounded],
        "harnesses": hreps,
        "verus_units": [{k: v for k, v in r.items() if k not in ("failed",)} for r in vreps],
        "samples": samples,
        "exhaustive": bool(meta.get("exhaustive_tiers") and tier in meta["exhaustive_tiers"]),
        "does_not_cover": meta.get("does_not_cover", []),
        "undecided": undecided,
        "known_findings_hit": [k["what"] for _, k in known_hits],
        "evaluations": len(hreps) + len(vreps),
        "distinct_nontrivial": len(named),
        "rule": "one evaluation = one Kani harness or Verus unit run; distinct_nontrivial = number of distinct named obligations (assert labels / ensures clauses) checked in this run",
    }
    ev = {
        "property_id": prop,
        "tier": tier,
        "seed": int(os.environ.get("VERIF_SEED", "0") or 0),
        "level": level,
        "coverage": cov,
        "assumptions": trusted,
        "wall_s": round(wall, 1),
        "violations": len({v["replay"] for v in new_viol}),
    }
    with open(os.path.join(EVID, "%s.json" % prop), "w") as f:
        json.dump(ev, f, indent=1)


def replay(prop, path):
    """Replay file -> re-run the named harness on the current tree (the replay file records which)."""
    txt = open(path).read()
    m = re.search(r"harness (\S+?):", txt)
    if path.endswith(".txt") or not m:
        sys.stdout.write(txt)
        return run_check(prop, "quick")
    return run_check(prop, "thorough", only=m.group(1))
