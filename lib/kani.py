"""Run Kani harnesses on a scratch copy of the real crate and classify the verdicts."""
import json, os, re, shutil, subprocess, time

from scratch import CACHE

KANI_ENV = {"CARGO_NET_OFFLINE": "true"}
WARM = os.path.join(CACHE, "kani-target")


class HarnessResult:
    def __init__(self, name):
        self.name = name
        self.status = "missing"  # success | failure | missing | timeout | error
        self.duration_s = 0.0
        self.checks = 0  # number of CBMC properties (excluding covers)
        self.failed = []  # [(description, file, line)]
        self.named = {}  # obligation name -> status
        self.covers = []  # [(description, status)]
        self.stats = {}
        self.unwinding_failed = False

    def to_json(self):
        return {
            "harness": self.name, "status": self.status, "duration_s": round(self.duration_s, 2),
            "checks": self.checks, "failed": self.failed, "named_obligations": self.named,
            "covers": self.covers, "solver_s": self.stats.get("runtime_solver_s"),
            "symex_s": self.stats.get("runtime_symex_s"),
        }


def warm_target(repo_dir):
    """Copy the dependency build cache (built by setup) into the scratch copy, if present."""
    dst = os.path.join(repo_dir, "target")
    if os.path.isdir(WARM) and not os.path.exists(dst):
        subprocess.run(["cp", "-a", WARM, dst], check=False)


def run(repo_dir, harnesses, jobs=8, harness_timeout=600, extra_flags=(), cbmc_args=(), log_prefix=None,
        total_timeout=None):
    """One `cargo kani` invocation for a list of harness function names (exact leaf names).

    Returns (dict name->HarnessResult, raw_log_text, compile_ok)."""
    out_json = (log_prefix or os.path.join(repo_dir, "kani")) + ".json"
    log_file = (log_prefix or os.path.join(repo_dir, "kani")) + ".log"
    if os.path.exists(out_json):
        os.remove(out_json)
    cmd = ["cargo", "kani", "-Z", "stubbing", "-Z", "unstable-options", "--no-assertion-reach-checks",
           "--output-format", "terse", "-j", str(jobs), "--harness-timeout", "%ds" % harness_timeout,
           "--export-json", out_json]
    cmd += list(extra_flags)
    for h in harnesses:
        cmd += ["--harness", h]
    # harness filter is a substring match; exactness is enforced below by leaf-name comparison
    if cbmc_args:
        cmd += ["--cbmc-args"] + list(cbmc_args)
    env = dict(os.environ)
    env.update(KANI_ENV)
    # temporary files of the tool chain (the CNF handed to the external SAT solver can be > 1 GB and is left behind when a harness
    # is killed at its timeout) live inside the scratch directory and are removed with it
    _tmp = os.path.join(os.path.dirname(os.path.abspath(repo_dir)), "tmp")
    os.makedirs(_tmp, exist_ok=True)
    env["TMPDIR"] = _tmp
    t0 = time.time()
    with open(log_file, "w") as lf:
        try:
            p = subprocess.run(cmd, cwd=repo_dir, env=env, stdout=lf, stderr=subprocess.STDOUT,
                               timeout=total_timeout)
            rc = p.returncode
        except subprocess.TimeoutExpired:
            rc = -9
    wall = time.time() - t0
    log = open(log_file, errors="replace").read()
    results = {h: HarnessResult(h) for h in harnesses}
    compile_ok = "error: could not compile" not in log and "error[E" not in log
    if os.path.exists(out_json):
        try:
            data = json.load(open(out_json))
        except Exception:
            data = None
        if data:
            stats = {c["harness_id"]: c.get("cbmc_stats", {}) for c in data.get("cbmc", [])}
            for r in data.get("verification_results", {}).get("results", []):
                leaf = r["harness_id"]
                if leaf not in results:
                    leaf = r["harness_id"].split("::")[-1]
                if leaf not in results:
                    continue
                hr = results[leaf]
                hr.duration_s = r.get("duration_ms", 0) / 1000.0
                hr.stats = stats.get(r["harness_id"]) or {}
                st = r.get("status", "")
                hr.status = {"Success": "success", "Failure": "failure"}.get(st, st.lower() or "error")
                for c in r.get("checks", []):
                    desc = c.get("description", "")
                    cat = c.get("category", "")
                    cst = c.get("status", "")
                    if cat == "cover":
                        hr.covers.append((desc, cst))
                        continue
                    hr.checks += 1
                    m = re.match(r'^"?((?:U\d+[a-z]?|CANARY)[^"]*)"?$', desc)
                    if m:
                        nm = m.group(1)
                        prev = hr.named.get(nm)
                        if prev is None or cst != "Success":
                            hr.named[nm] = cst
                    if cst not in ("Success",):
                        loc = c.get("location", {})
                        hr.failed.append((desc.strip('"'), cst, loc.get("file"), loc.get("line")))
                        if cat == "unwind" or "unwinding assertion" in desc:
                            hr.unwinding_failed = True
                if hr.status == "failure" and not hr.failed:
                    hr.status = "error"
    # detect timeouts from the log
    for m in re.finditer(r"harness ([\w:]+) timed out|Harness ([\w:]+) timed out", log):
        full = (m.group(1) or m.group(2))
        for key in (full, full.split("::")[-1]):
            if key in results:
                results[key].status = "timeout"
    for leaf, hr in results.items():
        if hr.status == "failure" and all(f[1] not in ("Failure",) for f in hr.failed):
            # only UNDETERMINED etc.
            hr.status = "error"
    return results, log, compile_ok, wall, cmd


def playback(repo_dir, rel_file, mod_name, harness, extra_flags=(), cbmc_args=(), timeout=300):
    """Obtain Kani's concrete counterexample for a failing harness and run it natively.

    Returns (test_source or None, native_failed: bool or None, native_output)."""
    cmd = ["cargo", "kani", "-Z", "stubbing", "-Z", "unstable-options", "-Z", "concrete-playback",
           "--concrete-playback=print", "--no-assertion-reach-checks", "--harness", harness]
    cmd += list(extra_flags)
    if cbmc_args:
        cmd += ["--cbmc-args"] + list(cbmc_args)
    env = dict(os.environ)
    env.update(KANI_ENV)
    # temporary files of the tool chain (the CNF handed to the external SAT solver can be > 1 GB and is left behind when a harness
    # is killed at its timeout) live inside the scratch directory and are removed with it
    _tmp = os.path.join(os.path.dirname(os.path.abspath(repo_dir)), "tmp")
    os.makedirs(_tmp, exist_ok=True)
    env["TMPDIR"] = _tmp
    try:
        p = subprocess.run(cmd, cwd=repo_dir, env=env, stdout=subprocess.PIPE, stderr=subprocess.STDOUT,
                           timeout=timeout, text=True, errors="replace")
    except subprocess.TimeoutExpired:
        return None, None, "playback generation timed out"
    out = p.stdout
    # Kani prints the unit test inside a ```  ``` block
    m = re.search(r"```\s*\n(.*?#\[test\].*?)```", out, re.S)
    if not m:
        return None, None, out[-4000:]
    test_src = m.group(1)
    tm = re.search(r"fn (kani_concrete_playback_\w+)", test_src)
    if not tm:
        return test_src, None, out[-2000:]
    test_name = tm.group(1)
    # inject the test into the harness module (it calls the harness fn by its leaf name)
    path = os.path.join(repo_dir, rel_file)
    src = open(path).read()
    # append the test at the end of the harness module (the module is the last item of the file)
    idx = src.rstrip().rfind("}")
    if idx < 0 or ("mod %s {" % mod_name) not in src:
        return test_src, None, "module marker not found"
    src = src[:idx] + "\n" + test_src + "\n" + src[idx:]
    open(path, "w").write(src)
    cmd2 = ["cargo", "kani", "playback", "-Z", "concrete-playback", "--", test_name]
    try:
        p2 = subprocess.run(cmd2, cwd=repo_dir, env=env, stdout=subprocess.PIPE, stderr=subprocess.STDOUT,
                            timeout=timeout, text=True, errors="replace")
    except subprocess.TimeoutExpired:
        return test_src, None, "native playback timed out"
    out2 = p2.stdout
    # keep only the informative part of the native run
    keep = [l for l in out2.split("\n") if re.search(r"^error|panicked|assertion|^test |test result|SIGSEGV|signal|left:|right:|-->", l)]
    native_failed = None
    if re.search(r"test result: FAILED|panicked at|SIGSEGV|signal: 11", out2):
        native_failed = True
    elif re.search(r"test result: ok\. 1 passed", out2):
        native_failed = False
    return test_src, native_failed, "\n".join(keep[-60:])
