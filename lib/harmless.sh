#!/bin/bash
# usage: [FN=<function touched>] lib/harmless.sh <patch.diff> [property ...]
# Applies a behaviour-preserving refactoring to a scratch copy of /repo (never to /repo itself) and runs the quick check of every
# property that has a contract on a function of the touched file (or the properties given).  A refactoring must never be reported
# as a violation: rc 0 (held) and rc 2 (undecided: the extractor lost its anchor) are acceptable, rc 1 is a false alarm.
V=$(cd "$(dirname "$0")/.." && pwd); cd $V
D=$(readlink -f $1); shift
files=$(grep '^+++ b/' $D | sed 's,^+++ b/,,')
props="$@"
[ -z "$props" ] && props=$(python3 - "$FN" $files <<'PY'
import sys, re, os
sys.path.insert(0, 'lib')
import units
fn = sys.argv[1]; files = sys.argv[2:]
out = []
for pid, cfg in units.PROPS.items():
    hit = False
    for u in cfg.get("verus_units", []):
        t = open(os.path.join('contracts/verus', u + '.rs.tmpl')).read()
        for m in re.finditer(r"/\*@extract[^\n]*", t):
            if any(('file=' + f) in m.group(0) for f in files) and (not fn or re.search(r"(name|in)=%s\b" % re.escape(fn), m.group(0))): hit = True
    for k in cfg.get("kani_units", []):
        for mod in units.MODULES.values() if hasattr(units, "MODULES") else []:
            pass
    if hit: out.append(pid)
if fn:
    # Kani: contract modules that call the function by name
    for pid, cfg in units.PROPS.items():
        if pid in out: continue
        for f in os.listdir('contracts/kani'):
            t = open(os.path.join('contracts/kani', f)).read()
            if re.search(r"\b%s\(" % re.escape(fn), t):
                us = set(re.findall(r"\bu(\d+)_", t))
                if any(("U" + n) in [x.split(".")[0].split("-")[0] for x in cfg.get("kani_units", [])] for n in us): out.append(pid); break
print(' '.join(sorted(set(out))))
PY
)
M=$(mktemp -d /tmp/mrepo-XXXX)
rsync -a --exclude /target --exclude /.git /repo/ $M/
if ! (cd $M && git init -q . 2>/dev/null; git apply $D); then echo "patch does not apply"; rm -rf $M; exit 9; fi
for P in $props; do
  VERIF_REPO=$M ./check $P --tier quick > /tmp/harmless-$P.log 2>&1; rc=$?
  obl=$(grep -E "FAILED-OBLIGATION" /tmp/harmless-$P.log | sed -E 's/.*obligation=([^ ]+).*/\1/' | sort -u | head -3 | tr '\n' ' ')
  und=$(grep -E "UNDECIDED|undecided" /tmp/harmless-$P.log | head -2 | cut -c1-160 | tr '\n' ' ')
  echo "$(basename $(dirname $D))/$(basename $D) $P rc=$rc $obl $und"
done
rm -rf $M
