#!/usr/bin/env python3
"""Build the dependency cache used by Kani runs (deps only; the crate itself is rebuilt on every check)."""
import os, shutil, subprocess, sys
sys.path.insert(0, os.path.dirname(os.path.abspath(__file__)))
import scratch, kani, units

d, repo = scratch.make_scratch("pdbverif-warm-")
try:
    scratch.append_crate_module(repo, "verif_stubs", open(os.path.join(scratch.VERIF, "contracts/kani/stubs.rs")).read())
    scratch.append_crate_module(repo, "verif_warm", "#[kani::proof]\nfn warm() { assert!(1 + 1 == 2); }\n")
    env = dict(os.environ); env.update(kani.KANI_ENV)
    p = subprocess.run(["cargo", "kani", "-Z", "stubbing", "--harness", "verif_warm::warm"], cwd=repo, env=env,
                       stdout=subprocess.PIPE, stderr=subprocess.STDOUT, text=True, timeout=1800)
    ok = "VERIFICATION:- SUCCESSFUL" in p.stdout
    print("kani warm-up:", "ok" if ok else "FAILED")
    if not ok:
        print(p.stdout[-3000:])
    if ok:
        os.makedirs(scratch.CACHE, exist_ok=True)
        if os.path.isdir(kani.WARM):
            shutil.rmtree(kani.WARM)
        shutil.copytree(os.path.join(repo, "target"), kani.WARM, symlinks=True)
    # verus first run (builds vstd cache if any)
    t = os.path.join(d, "w.rs")
    open(t, "w").write("use vstd::prelude::*;\nverus!{ proof fn w() ensures 1+1==2 {} }\nfn main(){}\n")
    p = subprocess.run(["verus", t], stdout=subprocess.PIPE, stderr=subprocess.STDOUT, text=True, timeout=600)
    print("verus warm-up:", p.stdout.strip().splitlines()[-1] if p.stdout.strip() else p.returncode)
finally:
    scratch.remove_scratch(d)
