#!/bin/bash
# usage: seedrun2.sh <seed dir name> <property> [tier] [extra check args]
# like seedrun.sh but on a scratch copy of /repo (VERIF_REPO) so that /repo is never touched; used while other runs are active
S=/verif/seeded/$1; P=$2; T=${3:-quick}; shift 3
M=$(mktemp -d /tmp/mrepo-XXXX)
rsync -a --exclude /target --exclude /.git /repo/ $M/ && (cd $M && git init -q . 2>/dev/null; git apply $S/patch.diff) || { echo "patch does not apply"; rm -rf $M; exit 9; }
cd /verif && VERIF_REPO=$M ./check $P --tier $T "$@" > $S/check-$P-$T.log 2>&1; rc=$?
rm -rf $M
echo "rc=$rc"; grep -E "VIOLATION|FAILED-OBLIGATION|UNDECIDED|KNOWN" $S/check-$P-$T.log | head -12
exit 0
