#!/bin/bash
# usage: seedrun.sh <seed dir under /verif/seeded> <property> [tier] [extra check args]
# applies the seeded patch to /repo, runs the check, reverts /repo immediately.
S=/verif/seeded/$1; P=$2; T=${3:-quick}; shift 3
git -C /repo apply $S/patch.diff || { echo "patch does not apply"; exit 9; }
cd /verif && ./check $P --tier $T "$@" > $S/check-$P-$T.log 2>&1; rc=$?
git -C /repo checkout -- .
echo "rc=$rc"; grep -E "VIOLATION|FAILED-OBLIGATION|UNDECIDED|KNOWN" $S/check-$P-$T.log | head -20
exit 0
