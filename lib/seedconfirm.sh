#!/bin/bash
# usage: seedconfirm.sh <worktree> <changedir> <demo test filter>
# Confirms: suite passes with patch; demo fails with patch; demo passes without patch.
WT=$1; CH=$2; FILTER=$3
cd $WT || exit 9
git checkout -q -- . ; git clean -fdq src tests
git apply $CH/patch.diff || { echo "PATCH DOES NOT APPLY"; exit 9; }
echo "== suite with patch"; cargo test --workspace --offline -j 8 2>&1 | grep -E "^test result|FAILED|failed" | head -20
git apply $CH/demo.diff || { echo "DEMO DOES NOT APPLY on buggy tree"; }
echo "== demo with patch (expect FAIL)"; cargo test --workspace --offline -j 8 $FILTER 2>&1 | grep -E "^test .*(ok|FAILED)|^test result" | grep -v "0 passed; 0 failed" | head
git checkout -q -- . ; git clean -fdq src tests
git apply $CH/demo.diff || { echo "DEMO DOES NOT APPLY on clean tree"; }
echo "== demo without patch (expect ok)"; cargo test --workspace --offline -j 8 $FILTER 2>&1 | grep -E "^test .*(ok|FAILED)|^test result" | grep -v "0 passed; 0 failed" | head
git checkout -q -- . ; git clean -fdq src tests
