#!/bin/bash
# usage: lib/seedconfirm.sh <seed-id> <property> "<demo cmd>"   -- (re)confirms an already stored seeded/<id>/{patch,demo}.diff in a scratch
# worktree of /repo (removed afterwards) and writes meta.json:confirmed. Used for deliveries whose import was interrupted.
S=$1; P=$2; CMD=$3; D=/verif/seeded/$S; WT=/tmp/wt-confirm-$S
git -C /repo worktree add -q --detach $WT HEAD || exit 9
cd $WT
git apply $D/patch.diff || { echo "PATCH DOES NOT APPLY"; git -C /repo worktree remove --force $WT; exit 8; }
suite=$(CARGO_TARGET_DIR=$WT/target cargo test --workspace --no-fail-fast --offline -j 8 2>&1 | grep -E "^test result" | tr '\n' ';')
git apply $D/demo.diff
(eval "$CMD") > /tmp/confirm-$S-with.log 2>&1; with_rc=$?
git checkout -q -- . ; git apply $D/demo.diff 2>/dev/null
(eval "$CMD") > /tmp/confirm-$S-without.log 2>&1; without_rc=$?
python3 - <<PY
import json,os
p='$D/meta.json'
m=json.load(open(p)) if os.path.exists(p) else {'property':'$P'}
m['demo_cmd_run']='''$CMD'''
m['confirmed']={'suite_with_change':'''$suite''','demo_with_change_exit':$with_rc,'demo_without_change_exit':$without_rc}
json.dump(m,open(p,'w'),indent=1)
PY
echo "$S suite=[$suite] demo_with=$with_rc demo_without=$without_rc"
cd /; git -C /repo worktree remove --force $WT
