#!/usr/bin/env python3
"""debug helper: expand a verus template and run verus, keeping the file"""
import sys, os, json
sys.path.insert(0, os.path.dirname(os.path.abspath(__file__)))
import verus
r = verus.run_unit(sys.argv[1], repo=(sys.argv[2] if len(sys.argv) > 2 else None), keep=True)
d = r.pop("diag", None)
for f in r.get("failed", []):
    print("FAILED", f["obligation"], "|", f["clause"]); print(f["diag"][:1500])
r["failed"] = [f["obligation"] for f in r.get("failed", [])]
print(json.dumps(r, indent=1)[:3000])
if d: print(d)
