"""Registry: contract units, their harnesses, and which property uses which unit at which tier."""
import os

VERIF = os.path.dirname(os.path.dirname(os.path.abspath(__file__)))


class H:
    """One Kani harness. kind: proof (complete), bounded (stated bound), canary (must be refuted)."""

    def __init__(self, name, unit, kind="proof", tiers=("quick", "thorough"), shape=None, bound=None,
                 known=None):
        self.name = name
        self.unit = unit
        self.kind = kind
        self.tiers = tiers
        self.shape = shape  # human-readable concrete shape of this harness
        self.bound = bound  # text, for bounded harnesses
        self.known = known


class KModule:
    """A contract module appended as a child module to a real source file of the scratch copy."""

    def __init__(self, key, target, mod_name, contract, generated=None, cbmc_args=(), deps=()):
        self.key = key
        self.target = target
        self.mod_name = mod_name
        self.contract = contract
        self.generated = generated or (lambda: "")
        self.cbmc_args = tuple(cbmc_args)
        self.harnesses = []
        self.deps = deps

    def text(self):
        t = open(os.path.join(VERIF, "contracts/kani", self.contract)).read()
        return t.replace("/*@@GENERATED:%s@@*/" % self.key, self.generated())

    def full_name(self, h):
        modpath = self.target[len("src/"):-len(".rs")].replace("/", "::")
        if modpath.endswith("::mod"):
            modpath = modpath[:-5]
        return "%s::%s::%s" % (modpath, self.mod_name, h)


# ---------------------------------------------------------------- index.rs
SSE2_QUICK = [0, 1, 2, 3, 37, 60, 61, 62, 63, 64]
FIND_ENTRY_POS = [0, 37, 64]
BASE_QUICK = [0, 5, 63, 64]


def _gen_index():
    out = []
    for p in range(65):
        out.append("base_harness!(u2_base_p%d, %d);" % (p, p))
        out.append("sse2_harness!(u2_sse2_p%d, %d);" % (p, p))
    for i in range(64):
        out.append("wr_harness!(u1_wr_i%d, %d);" % (i, i))
    for p in FIND_ENTRY_POS:
        out.append("find_entry_harness!(u2_find_entry_p%d, %d);" % (p, p))
    return "\n".join(out)


M_INDEX = KModule("index", "src/index.rs", "verif_index", "index.rs", _gen_index)
for n in ["u1_entry_codec", "u1_extract_key_slices", "u1_address_codec", "u1_table_id"]:
    M_INDEX.harnesses.append(H(n, "U1"))
for i in range(64):
    M_INDEX.harnesses.append(H("u1_wr_i%d" % i, "U1", tiers=("quick", "thorough") if i in (0, 1, 31, 63) else ("thorough",),
                               shape="read_entry/write_entry at slot %d" % i))
for p in range(65):
    tiers = ("quick", "thorough") if p in BASE_QUICK else ("thorough",)
    M_INDEX.harnesses.append(H("u2_base_p%d" % p, "U2", tiers=tiers, shape="find_entry_base, start position %d" % p))
for p in range(65):
    tiers = ("quick", "thorough") if p in SSE2_QUICK else ("thorough",)
    M_INDEX.harnesses.append(H("u2_sse2_p%d" % p, "U2", tiers=tiers, shape="find_entry_sse2, start position %d" % p))
for p in FIND_ENTRY_POS:
    M_INDEX.harnesses.append(H("u2_find_entry_p%d" % p, "U2", tiers=("quick", "thorough") if p == 37 else ("thorough",),
                               shape="find_entry (dispatch), start position %d" % p))
M_INDEX.harnesses.append(H("u2_lemma_exact_implies_fast", "U2"))
M_INDEX.harnesses.append(H("canary_u2_base", "U2", kind="canary"))
M_INDEX.harnesses.append(H("u4_reindex", "U4"))
M_INDEX.harnesses.append(H("u4_migrate", "U4"))
M_INDEX.harnesses.append(H("canary_u4", "U4", kind="canary"))
M_INDEX.harnesses.append(H("u3_insert_new", "U3"))
M_INDEX.harnesses.append(H("u3_insert_replace", "U3"))
M_INDEX.harnesses.append(H("u3_remove", "U3"))
M_INDEX.harnesses.append(H("canary_u3", "U3", kind="canary"))


# ---------------------------------------------------------------- table.rs
def _b(x):
    return "true" if x else "false"


def _fmt_parts(es, r):
    rem, n = r, 1
    while rem > es - 2:
        rem -= es - 10
        n += 1
    return n, rem


def _table_shapes():
    """(name, call, unit, kind, tiers, shape text)"""
    out = []
    Q, T = ("quick", "thorough"), ("thorough",)
    ES = 48
    # --- writer, insert mode, multipart table of 48-byte entries
    def ins(es, mp, rc, k, L, free, tiers):
        nm = "u6_w_ins_e%d_%s_%s%s_L%d_f%d" % (es, "mp" if mp else "fx", "r" if rc else "n", "k" if k else "n", L, free)
        n, last = _fmt_parts(es, L + (4 if rc else 0) + (26 if k else 0))
        out.append((nm, "w_insert(%d, %s, %s, %s, %d, %d, %d, %d)" % (es, _b(mp), _b(rc), _b(k), L, free, n, last), "U6", "bounded", tiers, n + 2,
                    "overwrite_chain insert: entry_size %d %s, rc=%s key=%s, value length %d, %d free slot(s)" % (es, "multipart" if mp else "fixed", rc, k, L, free)))
    quick_ins = {(True, True, 16, 0), (True, True, 17, 1), (True, True, 55, 2), (False, False, 46, 0), (False, False, 47, 0)}
    for (rc, k, hi) in [(True, True, 92), (False, False, 122), (False, True, 96), (True, False, 118)]:
        hdr = (4 if rc else 0) + (26 if k else 0)
        bounds = sorted({0, 1, 46 - hdr, 47 - hdr, 84 - hdr, 85 - hdr, hi})
        lens = range(0, hi + 1) if (rc, k) in [(True, True), (False, False)] else bounds
        for L in lens:
            if L < 0:
                continue
            for free in (0, 1, 2):
                is_bound = L in bounds
                if free > 0 and not is_bound:
                    continue
                tiers = Q if (rc, k, L, free) in quick_ins else T
                ins(ES, True, rc, k, L, free, tiers)
    # fixed-size tables: every length up to capacity
    for (es, rc, k) in [(32, False, True), (33, True, False), (64, True, True), (64, False, False)]:
        cap = es - 2 - (4 if rc else 0) - (26 if k else 0)
        for L in range(0, cap + 1):
            ins(es, False, rc, k, L, 0, Q if (es == 64 and rc and k and L == cap) else T)
    # --- writer, replace / claimed mode
    def rep(rc, k, old, L, claimed, tiers):
        nm = "u6_w_rep_%s%s_o%d_L%d%s" % ("r" if rc else "n", "k" if k else "n", old, L, "_cl" if claimed else "")
        n, last = _fmt_parts(ES, L + (4 if rc else 0) + (26 if k else 0))
        out.append((nm, "w_replace(%d, %s, %s, %d, %d, %s, %d, %d)" % (ES, _b(rc), _b(k), old, L, _b(claimed), n, last), "U6", "bounded", tiers, max(n, old) + 2,
                    "overwrite_chain %s: 48-byte multipart, rc=%s key=%s, old chain %d part(s), new value length %d" % ("claimed" if claimed else "replace", rc, k, old, L)))
    quick_rep = {(True, True, 3, 16), (True, True, 1, 55), (True, True, 2, 17)}
    for (rc, k) in [(True, True), (False, False)]:
        hdr = (4 if rc else 0) + (26 if k else 0)
        for old in (1, 2, 3):
            for L in sorted({0, 46 - hdr, 47 - hdr, 84 - hdr, 85 - hdr, 85 - hdr + 7}):
                rep(rc, k, old, L, False, Q if (rc, k, old, L) in quick_rep else T)
    for L in (16, 17, 55):
        rep(True, True, 1, L, True, Q if L == 17 else T)
    # --- reader
    def rd(es, mp, rc, k, n, last, tiers):
        for mode in (0, 1, 2):
            if (mode == 1 and not rc) or (mode == 2 and not k):
                continue
            nm = "u6_r_q_e%d_%s_%s%s_n%d_l%d_m%d" % (es, "mp" if mp else "fx", "r" if rc else "n", "k" if k else "n", n, last, mode)
            out.append((nm, "r_query(%d, %s, %s, %s, %d, %d, %d)" % (es, _b(mp), _b(rc), _b(k), n, last, mode), "U6", "bounded",
                        tiers if (mode == 0 or (n == 2 and tiers == Q)) else T, n + 1,
                        "query/for_parts: entry_size %d %s, rc=%s key=%s, %d part(s), last part %d bytes, %s" % (
                            es, "multipart" if mp else "fixed", rc, k, n, last, ["live entry", "counter zero", "key mismatch"][mode])))
    quick_rd = set()  # multi-part reader shapes are thorough-only (cost)
    for (rc, k) in [(True, True), (False, False), (False, True), (True, False)]:
        hdr = (4 if rc else 0) + (26 if k else 0)
        for n in (1, 2, 3):
            lasts = sorted({hdr if n == 1 else 0, 9 if n > 1 else hdr + 1, 46})
            for last in lasts:
                if n == 1:
                    continue  # a multipart table only holds chains (a head must carry the MULTIHEAD marker)
                rd(ES, True, rc, k, n, last, Q if (rc, k, n, last) in quick_rd else T)
    rd(64, False, True, True, 1, 62, Q)
    rd(64, False, True, True, 1, 30, T)
    rd(32, False, False, True, 1, 30, T)
    for (mp, rc, n, last) in [(True, True, 2, 20), (False, False, 1, 40), (False, True, 1, 40)]:
        nm = "u6_r_sk_%s_%s_n%d" % ("mp" if mp else "fx", "r" if rc else "n", n)
        out.append((nm, "r_size_and_key(48, %s, %s, %d, %d)" % (_b(mp), _b(rc), n, last), "U6", "bounded", Q if mp and rc else T, n + 1,
                    "size / partial_key_at / has_key_at on a %d-part chain" % n))
    out.append(("u6_r_dead_mp", "r_dead(48, true)", "U6", "bounded", T, 3, "tombstone and continuation part are not values"))
    out.append(("u6_r_dead_fx", "r_dead(48, false)", "U6", "bounded", T, 3, "tombstone is not a value (fixed table)"))
    return out


TABLE_SHAPES = _table_shapes()


def _gen_table():
    return "\n".join("table_harness!(#[kani::unwind(%d)] %s, %s);" % (x[5], x[0], x[1]) for x in TABLE_SHAPES)


M_TABLE = KModule("table", "src/table.rs", "verif_table", "table.rs", _gen_table,
                  cbmc_args=("--unwindset", "memcmp.0:28"))
for n in ["u5_size_codec", "u5_markers", "u5_int_codecs", "u5_header", "u5_value_size", "u5_table_id"]:
    M_TABLE.harnesses.append(H(n, "U5"))
for (nm, call, unit, kind, tiers, _unw, shape) in TABLE_SHAPES:
    M_TABLE.harnesses.append(H(nm, unit, kind=kind, tiers=tiers, shape=shape,
                               bound="48/32/33/64-byte entries (real multipart size is 4096), <= 3 parts, free list <= 2"))

KMODULES = {"index": M_INDEX, "table": M_TABLE}


def kmodule_of_unit(unit):
    for m in KMODULES.values():
        if any(h.unit == unit for h in m.harnesses):
            yield m


# ---------------------------------------------------------------- properties
# per property: list of (unit, backend) ; level; claim text pieces
PROPS = {
    "C19": {
        "kani_units": ["U1", "U2"],
        "verus_units": ["index_search"],
        "level": "proof",
        "technique": "function contracts on the real find_entry_sse2/find_entry_base/find_entry discharged by Kani/CBMC (complete: loop bounds are program constants, all inputs symbolic) + Verus loop-invariant proof of find_entry_base",
        "claim": "Contract R1-R4 (hit is real and at/after p; no exact match skipped; first slot agreeing on the fast-path bits; miss reported as empty) is proved for find_entry_base, find_entry_sse2 and find_entry on the real code for every page content, key and index size 16..=49, one complete proof per start position (quick: 10 positions covering every alignment residue and both ends; thorough: all 65).",
        "level_note": "Trusted: PSRLQ stub = Intel SDM semantics; Kani's SIMD intrinsic models; rustc/Kani/CBMC/Verus/Z3. Quick tier covers a subset of start positions (each proved completely); thorough covers all.",
        "exhaustive_tiers": ["thorough"],
        "trusted_base": ["rustc, Kani 0.68, CBMC 6.11, kissat/CaDiCaL, Verus 0.2026.09.13, Z3"],
        "explanation": "Per start position p (concrete), Kani proves the search contract over a fully symbolic 512-byte page, key and index size; Verus proves find_entry_base's loop invariant unboundedly on the extracted function text.",
        "does_not_cover": ["non-x86_64 builds use find_entry_base only (same contract)", "hardware PSRLQ is trusted to match the SDM"],
    },
}

PROPS["C06"] = {
    "kani_units": ["U5", "U6"],
    "verus_units": [],
    "level": "other",
    "technique": "Kani/CBMC contracts on the real entry-header codec (complete) and on the chain writer/reader against the on-disk format specification (bounded shapes)",
    "claim": "TBD",
    "level_note": "TBD",
    "trusted_base": ["rustc, Kani 0.68, CBMC 6.11, kissat/CaDiCaL"],
    "explanation": "TBD",
    "does_not_cover": [],
}

UNIT_META = {
    "U1": {
        "functions": ["index::Entry::{new,address_bits,last_address,address,partial_key,extract_key,is_empty,empty,as_u64,from_u64}",
                      "index::Address::{new,from_u64,offset,size_tier,as_u64}",
                      "index::TableId::{new,col,index_bits,log_index,from_log_index,total_chunks,total_entries}",
                      "index::IndexTable::{chunk_index,read_entry,write_entry,transmute_chunk}", "index::file_size"],
        "assumes": [],
    },
    "U2": {
        "functions": ["index::IndexTable::find_entry_base", "index::IndexTable::find_entry_sse2", "index::IndexTable::find_entry"],
        "assumes": ["PSRLQ (_mm_srl_epi64) stubbed by its Intel SDM semantics (Kani has no model of the LLVM psrlq intrinsic)",
                    "Kani's models of simd_shuffle / simd_eq / simd_bitmask / unaligned load are faithful to SSE2"],
    },
    "U3": {
        "functions": ["index::IndexTable::plan_insert_chunk", "index::IndexTable::plan_remove_chunk"],
        "assumes": ["LogWriter::insert_index replaced by a recorder (contract: the record it is handed is what is logged)",
                    "RandomState::new stubbed (only empty HashMaps are constructed)"],
    },
    "U4": {
        "functions": ["index::IndexTable::recover_key_prefix", "table::key::TableKey::index_from_partial", "table::key::partial_key",
                      "index::Entry::{new,extract_key}", "index::IndexTable::chunk_index"],
        "assumes": [],
    },
}
