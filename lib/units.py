"""Registry: contract units, their harnesses, and which property uses which unit at which tier."""
import os

VERIF = os.path.dirname(os.path.dirname(os.path.abspath(__file__)))


class H:
    """One Kani harness. kind: proof (complete), bounded (stated bound), canary (must be refuted)."""

    def __init__(self, name, unit, kind="proof", tiers=("quick", "thorough"), shape=None, bound=None,
                 known=None):
        self.name = name
        self.unit = unit
        self.kind = kind
        self.tiers = tiers
        self.shape = shape  # human-readable concrete shape of this harness
        self.bound = bound  # text, for bounded harnesses
        self.known = known


class KModule:
    """A contract module appended as a child module to a real source file of the scratch copy."""

    def __init__(self, key, target, mod_name, contract, generated=None, cbmc_args=(), deps=()):
        self.key = key
        self.target = target
        self.mod_name = mod_name
        self.contract = contract
        self.generated = generated or (lambda: "")
        self.cbmc_args = tuple(cbmc_args)
        self.harnesses = []
        self.deps = deps

    def text(self):
        t = open(os.path.join(VERIF, "contracts/kani", self.contract)).read()
        return t.replace("/*@@GENERATED:%s@@*/" % self.key, self.generated())

    def full_name(self, h):
        modpath = self.target[len("src/"):-len(".rs")].replace("/", "::")
        if modpath.endswith("::mod"):
            modpath = modpath[:-5]
        return "%s::%s::%s" % (modpath, self.mod_name, h)


# ---------------------------------------------------------------- index.rs
SSE2_QUICK = [0, 1, 2, 3, 37, 60, 61, 62, 63, 64]
FIND_ENTRY_POS = [0, 37, 64]
BASE_QUICK = [0, 5, 63, 64]


def _gen_index():
    out = []
    for p in range(65):
        out.append("base_harness!(u2_base_p%d, %d);" % (p, p))
        out.append("sse2_harness!(u2_sse2_p%d, %d);" % (p, p))
    for i in range(64):
        out.append("wr_harness!(u1_wr_i%d, %d);" % (i, i))
    for p in FIND_ENTRY_POS:
        out.append("find_entry_harness!(u2_find_entry_p%d, %d);" % (p, p))
    return "\n".join(out)


M_INDEX = KModule("index", "src/index.rs", "verif_index", "index.rs", _gen_index)
for n in ["u1_entry_codec", "u1_extract_key_slices", "u1_address_codec", "u1_table_id"]:
    M_INDEX.harnesses.append(H(n, "U1"))
for i in range(64):
    M_INDEX.harnesses.append(H("u1_wr_i%d" % i, "U1", tiers=("quick", "thorough") if i in (0, 1, 31, 63) else ("thorough",),
                               shape="read_entry/write_entry at slot %d" % i))
for p in range(65):
    tiers = ("quick", "thorough") if p in BASE_QUICK else ("thorough",)
    M_INDEX.harnesses.append(H("u2_base_p%d" % p, "U2", tiers=tiers, shape="find_entry_base, start position %d" % p))
for p in range(65):
    tiers = ("quick", "thorough") if p in SSE2_QUICK else ("thorough",)
    M_INDEX.harnesses.append(H("u2_sse2_p%d" % p, "U2", tiers=tiers, shape="find_entry_sse2, start position %d" % p))
for p in FIND_ENTRY_POS:
    M_INDEX.harnesses.append(H("u2_find_entry_p%d" % p, "U2", tiers=("quick", "thorough") if p == 37 else ("thorough",),
                               shape="find_entry (dispatch), start position %d" % p))
M_INDEX.harnesses.append(H("u2_lemma_exact_implies_fast", "U2"))
M_INDEX.harnesses.append(H("canary_u2_base", "U2", kind="canary"))
M_INDEX.harnesses.append(H("u4_reindex", "U4"))
M_INDEX.harnesses.append(H("u4_migrate", "U4"))
M_INDEX.harnesses.append(H("canary_u4", "U4", kind="canary"))
M_INDEX.harnesses.append(H("u3_insert_new", "U3"))
M_INDEX.harnesses.append(H("u3_insert_replace", "U3"))
M_INDEX.harnesses.append(H("u3_remove", "U3"))
M_INDEX.harnesses.append(H("canary_u3", "U3", kind="canary"))

KMODULES = {"index": M_INDEX}


def kmodule_of_unit(unit):
    for m in KMODULES.values():
        if any(h.unit == unit for h in m.harnesses):
            yield m


# ---------------------------------------------------------------- properties
# per property: list of (unit, backend) ; level; claim text pieces
PROPS = {
    "C19": {
        "kani_units": ["U1", "U2"],
        "verus_units": ["index_search"],
        "level": "proof",
        "technique": "function contracts on the real find_entry_sse2/find_entry_base/find_entry discharged by Kani/CBMC (complete: loop bounds are program constants, all inputs symbolic) + Verus loop-invariant proof of find_entry_base",
        "claim": "Contract R1-R4 (hit is real and at/after p; no exact match skipped; first slot agreeing on the fast-path bits; miss reported as empty) is proved for find_entry_base, find_entry_sse2 and find_entry on the real code for every page content, key and index size 16..=49, one complete proof per start position (quick: 10 positions covering every alignment residue and both ends; thorough: all 65).",
        "level_note": "Trusted: PSRLQ stub = Intel SDM semantics; Kani's SIMD intrinsic models; rustc/Kani/CBMC/Verus/Z3. Quick tier covers a subset of start positions (each proved completely); thorough covers all.",
        "exhaustive_tiers": ["thorough"],
        "trusted_base": ["rustc, Kani 0.68, CBMC 6.11, kissat/CaDiCaL, Verus 0.2026.09.13, Z3"],
        "explanation": "Per start position p (concrete), Kani proves the search contract over a fully symbolic 512-byte page, key and index size; Verus proves find_entry_base's loop invariant unboundedly on the extracted function text.",
        "does_not_cover": ["non-x86_64 builds use find_entry_base only (same contract)", "hardware PSRLQ is trusted to match the SDM"],
    },
}

UNIT_META = {
    "U1": {
        "functions": ["index::Entry::{new,address_bits,last_address,address,partial_key,extract_key,is_empty,empty,as_u64,from_u64}",
                      "index::Address::{new,from_u64,offset,size_tier,as_u64}",
                      "index::TableId::{new,col,index_bits,log_index,from_log_index,total_chunks,total_entries}",
                      "index::IndexTable::{chunk_index,read_entry,write_entry,transmute_chunk}", "index::file_size"],
        "assumes": [],
    },
    "U2": {
        "functions": ["index::IndexTable::find_entry_base", "index::IndexTable::find_entry_sse2", "index::IndexTable::find_entry"],
        "assumes": ["PSRLQ (_mm_srl_epi64) stubbed by its Intel SDM semantics (Kani has no model of the LLVM psrlq intrinsic)",
                    "Kani's models of simd_shuffle / simd_eq / simd_bitmask / unaligned load are faithful to SSE2"],
    },
    "U3": {
        "functions": ["index::IndexTable::plan_insert_chunk", "index::IndexTable::plan_remove_chunk"],
        "assumes": ["LogWriter::insert_index replaced by a recorder (contract: the record it is handed is what is logged)",
                    "RandomState::new stubbed (only empty HashMaps are constructed)"],
    },
    "U4": {
        "functions": ["index::IndexTable::recover_key_prefix", "table::key::TableKey::index_from_partial", "table::key::partial_key",
                      "index::Entry::{new,extract_key}", "index::IndexTable::chunk_index"],
        "assumes": [],
    },
}
