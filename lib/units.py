"""Registry: contract units, their harnesses, and which property uses which unit at which tier."""
import os

VERIF = os.path.dirname(os.path.dirname(os.path.abspath(__file__)))


class H:
    """One Kani harness. kind: proof (complete), bounded (stated bound), canary (must be refuted)."""

    def __init__(self, name, unit, kind="proof", tiers=("quick", "thorough"), shape=None, bound=None,
                 known=None, alt=None):
        # alt: name of an alternative group -- the obligation the group stands for is violated only if EVERY member fails
        self.alt = alt
        self.name = name
        self.unit = unit
        self.kind = kind
        self.tiers = tiers
        self.shape = shape  # human-readable concrete shape of this harness
        self.bound = bound  # text, for bounded harnesses
        self.known = known


class KModule:
    """A contract module appended as a child module to a real source file of the scratch copy."""

    def __init__(self, key, target, mod_name, contract, generated=None, cbmc_args=(), deps=()):
        self.key = key
        self.target = target
        self.mod_name = mod_name
        self.contract = contract
        self.generated = generated or (lambda: "")
        self.cbmc_args = tuple(cbmc_args)
        self.harnesses = []
        self.deps = deps

    def text(self):
        t = open(os.path.join(VERIF, "contracts/kani", self.contract)).read()
        t = t.replace("/*@@GENERATED:%s@@*/" % self.key, self.generated())
        if self.key == "index":
            t = t.replace("/*@@GENERATED:index3@@*/", "\n".join(
                "logwriter_harness!(u3_insert_replace_i%d, u3_insert_body(1, %d));\nlogwriter_harness!(u3_remove_i%d, u3_remove_body(%d));" % (i, i, i, i)
                for i in range(64)))
            t = t.replace("/*@@GENERATED:index2@@*/", "\n".join(
                "reader_harness!(#[kani::unwind(%d)] u9_index_pop%d, u9_index_body(%d));" % (k + 2, k, k) for k in U9_POP))
        return t

    def full_name(self, h):
        modpath = self.target[len("src/"):-len(".rs")].replace("/", "::")
        if modpath.endswith("::mod"):
            modpath = modpath[:-5]
        return "%s::%s::%s" % (modpath, self.mod_name, h)


# ---------------------------------------------------------------- index.rs
SSE2_QUICK = [0, 1, 2, 3, 37, 60, 61, 62, 63, 64]
FIND_ENTRY_POS = [0, 37, 64]
BASE_QUICK = [0, 5, 63, 64]


def _gen_index():
    out = []
    for p in range(65):
        out.append("base_harness!(u2_base_p%d, %d);" % (p, p))
        out.append("sse2_harness!(u2_sse2_p%d, %d);" % (p, p))
    for i in range(64):
        out.append("wr_harness!(u1_wr_i%d, %d);" % (i, i))
    for p in FIND_ENTRY_POS:
        out.append("find_entry_harness!(u2_find_entry_p%d, %d);" % (p, p))
    return "\n".join(out)


U9_POP = [0, 1, 2, 3, 4, 5, 6, 7, 8, 12, 16, 56, 60, 61, 62, 63, 64]  # all 2^64 masks are covered unboundedly by the Verus unit log_mask_walk
M_INDEX = KModule("index", "src/index.rs", "verif_index", "index.rs", _gen_index)
for n in ["u1_entry_codec", "u1_extract_key_slices", "u1_address_codec", "u1_table_id"]:
    M_INDEX.harnesses.append(H(n, "U1"))
for i in range(64):
    M_INDEX.harnesses.append(H("u1_wr_i%d" % i, "U1", tiers=("quick", "thorough") if i in (0, 1, 31, 63) else ("thorough",),
                               shape="read_entry/write_entry at slot %d" % i))
for p in range(65):
    tiers = ("quick", "thorough") if p in BASE_QUICK else ("thorough",)
    M_INDEX.harnesses.append(H("u2_base_p%d" % p, "U2", tiers=tiers, shape="find_entry_base, start position %d" % p))
for p in range(65):
    tiers = ("quick", "thorough") if p in SSE2_QUICK else ("thorough",)
    M_INDEX.harnesses.append(H("u2_sse2_p%d" % p, "U2", tiers=tiers, shape="find_entry_sse2, start position %d" % p))
for p in FIND_ENTRY_POS:
    M_INDEX.harnesses.append(H("u2_find_entry_p%d" % p, "U2", tiers=("quick", "thorough") if p == 37 else ("thorough",),
                               shape="find_entry (dispatch), start position %d" % p))
M_INDEX.harnesses.append(H("u2_lemma_exact_implies_fast", "U2"))
M_INDEX.harnesses.append(H("canary_u2_base", "U2", kind="canary"))
M_INDEX.harnesses.append(H("u4_reindex", "U4"))
M_INDEX.harnesses.append(H("u4_migrate", "U4"))
M_INDEX.harnesses.append(H("canary_u4", "U4", kind="canary"))
M_INDEX.harnesses.append(H("u3_insert_new", "U3"))
for i in range(64):
    tr = ("quick", "thorough") if i in (0, 37, 63) else ("thorough",)
    M_INDEX.harnesses.append(H("u3_insert_replace_i%d" % i, "U3", tiers=tr, shape="plan_insert_chunk replacing slot %d" % i))
    M_INDEX.harnesses.append(H("u3_remove_i%d" % i, "U3", tiers=tr, shape="plan_remove_chunk at slot %d" % i))
M_INDEX.harnesses.append(H("canary_u3", "U3", kind="canary"))
for n in ["u2b_get_p0", "u2b_get_p37", "u2b_get_p64"]:
    M_INDEX.harnesses.append(H(n, "U2b", tiers=("quick", "thorough") if n == "u2b_get_p37" else ("thorough",),
                               shape="IndexTable::get through a log view implementing the LogQuery contract for index pages"))
for k in U9_POP:
    M_INDEX.harnesses.append(H("u9_index_pop%d" % k, "U9", kind="proof" if k in (0, 64) else "bounded", tiers=("quick", "thorough") if k in (0, 1, 2, 3, 64) else ("thorough",),
                               shape="IndexTable::validate_plan / skip_plan, mask with %d set bit(s) (positions symbolic)" % k,
                               bound="popcount classes %s (cross-check on the real LogReader type; all masks: Verus log_mask_walk)" % U9_POP))
M_INDEX.harnesses.append(H("canary_u9_index", "U9", kind="canary"))


# ---------------------------------------------------------------- table.rs
def _b(x):
    return "true" if x else "false"


def _fmt_parts(es, r):
    rem, n = r, 1
    while rem > es - 2:
        rem -= es - 10
        n += 1
    return n, rem


def _table_shapes():
    """(name, call, unit, kind, tiers, shape text)"""
    out = []
    Q, T = ("quick", "thorough"), ("thorough",)
    ES = 48
    # --- writer, insert mode, multipart table of 48-byte entries
    def ins(es, mp, rc, k, L, free, tiers):
        nm = "u6_w_ins_e%d_%s_%s%s_L%d_f%d" % (es, "mp" if mp else "fx", "r" if rc else "n", "k" if k else "n", L, free)
        n, last = _fmt_parts(es, L + (4 if rc else 0) + (26 if k else 0))
        out.append((nm, "w_insert(%d, %s, %s, %s, %d, %d, %d, %d)" % (es, _b(mp), _b(rc), _b(k), L, free, n, last), "U6", "bounded", tiers, n + 2,
                    "overwrite_chain insert: entry_size %d %s, rc=%s key=%s, value length %d, %d free slot(s)" % (es, "multipart" if mp else "fixed", rc, k, L, free)))
    quick_ins = {(True, True, 16, 0), (True, True, 16, 1), (True, True, 17, 1), (True, True, 17, 2), (True, True, 55, 2), (False, False, 46, 0), (False, False, 47, 0)}
    for (rc, k, hi) in [(True, True, 92), (False, False, 122), (False, True, 96), (True, False, 118)]:
        hdr = (4 if rc else 0) + (26 if k else 0)
        bounds = sorted({0, 1, 46 - hdr, 47 - hdr, 84 - hdr, 85 - hdr, hi})
        lens = range(0, hi + 1) if (rc, k) in [(True, True), (False, False)] else bounds
        for L in lens:
            if L < 0:
                continue
            for free in (0, 1, 2):
                is_bound = L in bounds
                if free > 0 and not is_bound:
                    continue
                tiers = Q if (rc, k, L, free) in quick_ins else T
                ins(ES, True, rc, k, L, free, tiers)
    # fixed-size tables: every length up to capacity
    for (es, rc, k) in [(32, False, True), (33, True, False), (64, True, True), (64, False, False)]:
        cap = es - 2 - (4 if rc else 0) - (26 if k else 0)
        for L in range(0, cap + 1):
            ins(es, False, rc, k, L, 0, Q if (es == 64 and rc and k and L == cap) else T)
    # --- writer, replace / claimed mode
    def rep(rc, k, old, L, claimed, tiers):
        nm = "u6_w_rep_%s%s_o%d_L%d%s" % ("r" if rc else "n", "k" if k else "n", old, L, "_cl" if claimed else "")
        n, last = _fmt_parts(ES, L + (4 if rc else 0) + (26 if k else 0))
        out.append((nm, "w_replace(%d, %s, %s, %d, %d, %s, %d, %d)" % (ES, _b(rc), _b(k), old, L, _b(claimed), n, last), "U6", "bounded", tiers, max(n, old) + 2,
                    "overwrite_chain %s: 48-byte multipart, rc=%s key=%s, old chain %d part(s), new value length %d" % ("claimed" if claimed else "replace", rc, k, old, L)))
    quick_rep = {(True, True, 3, 16), (True, True, 1, 55), (True, True, 2, 17)}
    for (rc, k) in [(True, True), (False, False)]:
        hdr = (4 if rc else 0) + (26 if k else 0)
        for old in (1, 2, 3):
            for L in sorted({0, 46 - hdr, 47 - hdr, 84 - hdr, 85 - hdr, 85 - hdr + 7}):
                rep(rc, k, old, L, False, Q if (rc, k, old, L) in quick_rep else T)
    for L in (16, 17, 55):
        rep(True, True, 1, L, True, Q if L == 17 else T)
    # --- reader
    def rd(es, mp, rc, k, n, last, tiers):
        for mode in (0, 1, 2):
            if (mode == 1 and not rc) or (mode == 2 and not k):
                continue
            nm = "u6_r_q_e%d_%s_%s%s_n%d_l%d_m%d" % (es, "mp" if mp else "fx", "r" if rc else "n", "k" if k else "n", n, last, mode)
            out.append((nm, "r_query(%d, %s, %s, %s, %d, %d, %d)" % (es, _b(mp), _b(rc), _b(k), n, last, mode), "U6", "bounded",
                        tiers if (mode == 0 or (n == 2 and tiers == Q)) else T, n + 1,
                        "query/for_parts: entry_size %d %s, rc=%s key=%s, %d part(s), last part %d bytes, %s" % (
                            es, "multipart" if mp else "fixed", rc, k, n, last, ["live entry", "counter zero", "key mismatch"][mode])))
    quick_rd = {(True, True, 2, 9), (False, False, 2, 0), (True, True, 3, 46)}
    for (rc, k) in [(True, True), (False, False), (False, True), (True, False)]:
        hdr = (4 if rc else 0) + (26 if k else 0)
        for n in (1, 2, 3):
            lasts = sorted({hdr if n == 1 else 0, 9 if n > 1 else hdr + 1, 46})
            for last in lasts:
                if n == 1:
                    continue  # a multipart table only holds chains (a head must carry the MULTIHEAD marker)
                rd(ES, True, rc, k, n, last, Q if (rc, k, n, last) in quick_rd else T)
    rd(64, False, True, True, 1, 62, Q)
    rd(64, False, True, True, 1, 30, Q)  # empty value
    rd(64, False, False, False, 1, 0, Q)  # empty value, no header fields
    rd(32, False, False, True, 1, 30, T)
    for (mp, rc, n, last) in [(True, True, 2, 20), (False, False, 1, 40), (False, True, 1, 40)]:
        nm = "u6_r_sk_%s_%s_n%d" % ("mp" if mp else "fx", "r" if rc else "n", n)
        out.append((nm, "r_size_and_key(48, %s, %s, %d, %d)" % (_b(mp), _b(rc), n, last), "U6", "bounded", Q if mp and rc else T, n + 1,
                    "size / partial_key_at / has_key_at on a %d-part chain" % n))
    out.append(("u6_r_dead_mp", "r_dead(48, true)", "U6", "bounded", Q, 3, "tombstone and continuation part are not values"))
    out.append(("u6_r_dead_fx", "r_dead(48, false)", "U6", "bounded", T, 3, "tombstone is not a value (fixed table)"))
    return out


TABLE_SHAPES = _table_shapes()


def _gen_table():
    return M_TABLE.fixed_gen + "\n" + "\n".join("table_harness!(#[kani::unwind(%d)] %s, %s);" % (x[5], x[0], x[1]) for x in TABLE_SHAPES)


M_TABLE = KModule("table", "src/table.rs", "verif_table", "table.rs", _gen_table,
                  cbmc_args=("--unwindset", "memcmp.0:28"))
for n in ["u5_size_codec", "u5_markers", "u5_int_codecs", "u5_header", "u5_value_size", "u5_table_id"]:
    M_TABLE.harnesses.append(H(n, "U5"))
for (nm, call, unit, kind, tiers, _unw, shape) in TABLE_SHAPES:
    M_TABLE.harnesses.append(H(nm, unit, kind=kind, tiers=tiers, shape=shape,
                               bound="48/32/33/64-byte entries (real multipart size is 4096), <= 3 parts, free list <= 2"))

M_TABLE.fixed_gen = "\n".join([
    "table_harness!(#[kani::unwind(3)] u8_change_ref_single, u8_change_ref(false, false));",
    "table_harness!(#[kani::unwind(3)] u8_change_ref_single_c, u8_change_ref(false, true));",
    "table_harness!(#[kani::unwind(3)] u8_change_ref_multihead, u8_change_ref(true, false));",
    "table_harness!(#[kani::unwind(3)] u8_change_ref_multihead_c, u8_change_ref(true, true));",
    "table_harness!(#[kani::unwind(3)] u8_dec_ref_frees, b_u8_dec_ref_frees());",
    "table_harness!(#[kani::unwind(3)] u14_free_list, b_u14_free_list());",
    "table_harness!(#[kani::unwind(3)] u14_next_free_grow_and_reject, b_u14_next_free_grow_and_reject());",
    "table_harness!(#[kani::unwind(5)] u14_remove_chain, b_u14_remove_chain());",
    "table_harness!(#[kani::unwind(6)] u14_free_entries_mirror, b_u14_free_entries_mirror());",
    "table_harness!(#[kani::unwind(6)] u14_free_entries_partial_claim, b_u14_free_entries_partial_claim());",
])
# (u8_* Kani harnesses exist in the contract file but exhaust CBMC's memory; U8 is carried by the Verus fragment unit)
for n in ["u14_free_list", "u14_next_free_grow_and_reject", "u14_remove_chain", "u14_free_entries_mirror", "u14_free_entries_partial_claim"]:
    M_TABLE.harnesses.append(H(n, "U14", kind="bounded", bound="48-byte entries, fill mark <= 7, one freed slot / 3-part chain"))
for k in ["fixed32", "fixed4096", "fixed_max", "multipart"]:
    M_TABLE.harnesses.append(H("u9_value_validate_" + k, "U9"))
# (u9_value_enact_* exist in the contract file but do not finish under CBMC within budget; not registered)
M_TABLE.harnesses.append(H("canary_u9_value", "U9", kind="canary"))
M_LOG = KModule("log", "src/log.rs", "verif_log", "log.rs")
M_TABLE.deps = (M_LOG,)
M_LOG.harnesses.append(H("u32_log_file_synced_before_it_becomes_readable", "U32", kind="bounded", shape="Log::flush_one on a log with an empty write buffer; sizes, id and sync option arbitrary", bound="one log file; close(2) of a dropped File replaced by a recorder"))
M_LOG.harnesses.append(H("u46_read_next_reports_io_errors", "U46", kind="bounded", shape="Log::read_next with an active log file; outcome of reading the record header scripted (record, stray action, end of file, two kinds of I/O error, corruption)", bound="LogReader::next by contract; the branch that activates the next queued file (rewind) is not exercised"))
M_LOG.harnesses.append(H("u47_kill_logs_keeps_unapplied_log_files", "U47", kind="bounded", shape="Log::kill_logs with one log file waiting in the read queue, optionally one pool file and one fully read file", bound="at most one pool file, one active reader, one queued file; close(2) replaced by a recorder"))
# (u26_* exist in the contract file but std HashMap (hashbrown) insertion does not finish symbolic execution within budget; not registered)
for n in []:
    M_LOG.harnesses.append(H(n, "U26", shape="LogWriter::insert_%s called three times on two chunks of one table; slots, record id and contents arbitrary" % ("ref_count" if "ref" in n else "index")))

# ---------------------------------------------------------------- column.rs
U11_WELL = [(0, 0), (0, 3), (1, 0), (1, 3), (2, 5), (3, 1)]
U11_ARB = [0, 1, 2, 8, 9, 10, 17, 25]


def _gen_column():
    out = []
    for (n, d) in U11_WELL:
        N = d + 8 * n + 1
        out.append("#[kani::proof]\n#[kani::unwind(%d)]\n#[kani::stub(std::fmt::format, crate::verif_stubs::fmt_format)]\nfn u11_well_c%d_d%d() { u11_unpack_wellformed::<%d>(%d, %d); }" % (n + 2, n, d, N, n, d))
    for N in U11_ARB:
        out.append("#[kani::proof]\n#[kani::unwind(%d)]\n#[kani::stub(std::fmt::format, crate::verif_stubs::fmt_format)]\nfn u11_arb_len%d() { u11_unpack_arbitrary::<%d>(); }" % (N // 8 + 3, N, N))
    return "\n".join(out)


M_COLUMN = KModule("column", "src/column.rs", "verif_column", "column.rs", _gen_column, deps=(M_LOG, M_TABLE, M_INDEX))
M_COLUMN.harnesses.append(H("u7_sizes_table", "U7"))
for n in ["u7_compress_rk", "u7_compress_nn", "u7_compress_nk"]:
    M_COLUMN.harnesses.append(H(n, "U7", kind="bounded", bound="slice of 3 fixed tables + blob table with arbitrary entry sizes (the real vector has 255 + 1)"))
for n in ["u8d_set_plain", "u8d_set_rc", "u8d_set_preimage", "u8d_reference_rc", "u8d_reference_plain", "u8d_dereference_rc", "u8d_dereference_plain"]:
    M_COLUMN.harnesses.append(H(n, "U8d", kind="bounded", shape="write_existing_value_plan: " + n[4:],
                                bound="3 fixed tiers with arbitrary increasing sizes (largest >= 4096) + blob table, instead of the real 255 + 1"))
for n in ["u15_reindex_plan_need0", "u15_reindex_plan_need1", "u15_reindex_plan_need2", "u15_plan_new_need0", "u15_plan_new_need1", "u15_plan_new_need2",
          "u15_plan_existing_current", "u15_plan_existing_old"]:
    M_COLUMN.harnesses.append(H(n, "U15", kind="bounded", shape=n[4:], bound="at most 2 consecutive index growths per operation; callees stubbed by contract"))
M_COLUMN.harnesses.append(H("u16_index_walk_visits_every_live_entry", "U16", kind="bounded",
                            shape="iter_index_internal over one arbitrary 64-entry page (last chunk of a 16-bit index)",
                            bound="one chunk, four arbitrary slots (0, 1, 37, 63), the rest empty; entries in one size tier; IndexTable::entries and ValueTable::get_with_meta by contract"))
M_COLUMN.harnesses.append(H("u17_iter_values_visits_every_table", "U17", kind="bounded", shape="HashColumn::iter_values (ValueTable::iter_while by contract)", bound="a column with 3 value tables (2 fixed tiers + blob table) instead of 256"))
# (u20_reindex_batch_*: written, but the queued IndexTable lives on the heap (VecDeque), which hides its size from the symbolic
# executor; the batch loop is then unrolled to the bound and the harness exceeds the budget -- not registered)
M_COLUMN.harnesses.append(H("u15_search_all_indexes_order", "U15", kind="bounded", shape="search_all_indexes over current + two queued indexes (search_index by contract)", bound="two queued old indexes"))
for n in ["u22_drop_index_advances_to_next_queued_index", "u22_trigger_reindex_queues_the_old_index"]:
    M_COLUMN.harnesses.append(H(n, "U22", kind="bounded", shape=n[4:], bound="a column with two queued old indexes (16, 17 bits) and an 18-bit current index; IndexTable::drop_file by contract"))
M_COLUMN.harnesses.append(H("u11_child_count_representable", "U11"))
for (n, d) in U11_WELL:
    M_COLUMN.harnesses.append(H("u11_well_c%d_d%d" % (n, d), "U11", kind="bounded", tiers=("thorough",) if n == 255 else ("quick", "thorough"),
                                shape="unpack_node_*: %d children, %d data bytes" % (n, d), bound="data length <= 5 bytes; child counts 0..=3 (larger counts exceed the CBMC budget: Vec growth)"))
for N in U11_ARB:
    M_COLUMN.harnesses.append(H("u11_arb_len%d" % N, "U11", kind="bounded", shape="unpack_node_* on %d arbitrary bytes" % N, bound="input length <= 25 bytes"))

RC_POP = [0, 1, 2, 3, 8, 32]
M_REFCOUNT = KModule("ref_count", "src/ref_count.rs", "verif_ref_count", "ref_count.rs",
                     lambda: "\n".join("reader_harness!(#[kani::unwind(%d)] u9_refcount_pop%d, u9_refcount_body(%d));" % (k + 2, k, k) for k in RC_POP),
                     deps=(M_LOG,))
for k in RC_POP:
    M_REFCOUNT.harnesses.append(H("u9_refcount_pop%d" % k, "U9", kind="proof" if k == 0 else "bounded",
                                  tiers=("quick", "thorough") if k <= 2 else ("thorough",),
                                  shape="RefCountTable::validate_plan, %d of the low 32 mask bits set" % k,
                                  bound="popcount classes {0,1,2,3,8,32} of the low mask half"))
M_INDEX.deps = (M_LOG,)
# ---------------------------------------------------------------- btree/node.rs
def _bt_shapes():
    out = []
    for n in range(1, 9):
        out.append(("u12_remove_from_n%d" % n, "u12_remove_from(%d)" % n, False, ("quick", "thorough") if n in (1, 5, 8) else ("thorough",)))
    for n in range(0, 8):
        out.append(("u12_shift_from_n%d" % n, "u12_shift_from(%d)" % n, False, ("quick", "thorough") if n in (0, 4, 7) else ("thorough",)))
    for n in range(0, 9):
        out.append(("u12_number_n%d" % n, "u12_number_and_last(%d)" % n, False, ("quick", "thorough") if n in (0, 3, 4, 8) else ("thorough",)))
    for n in range(0, 9):
        out.append(("u12_position_n%d" % n, "u12_position(%d)" % n, False, ("quick", "thorough") if n in (0, 1, 3, 8) else ("thorough",)))
    # rebalance: (np, at, nl, nr, inner)
    quick = {(4, 1, 8, 8, True), (4, 1, 4, 8, True), (4, 1, 4, 4, True), (4, 4, 4, 0, True), (4, 0, 0, 5, False), (4, 0, 0, 4, False)}
    for inner in (False, True):
        for (np, at) in [(4, 0), (4, 1), (4, 4), (8, 8), (8, 3), (1, 0), (1, 1)]:
            for nl in ((4, 5, 8) if at > 0 else (0,)):
                for nr in ((4, 5, 8) if at < np else (0,)):
                    nm = "u12_rebalance_p%d_a%d_l%d_r%d_%s" % (np, at, nl, nr, "inner" if inner else "leaf")
                    out.append((nm, "u12_rebalance(%d, %d, %d, %d, %s)" % (np, at, nl, nr, "true" if inner else "false"), True,
                                ("quick", "thorough") if (np, at, nl, nr, inner) in quick else ("thorough",)))
    return out


BT_SHAPES = _bt_shapes()
U70_SHAPES = [(n, at) for n in range(0, 9) for at in range(0, n + 1)]
U70_QUICK = {(8, 0), (8, 3), (8, 4), (8, 5), (8, 8), (3, 1), (0, 0)}
M_BTNODE = KModule("btree_node", "src/btree/node.rs", "verif_btree_node", "btree_node.rs",
                   lambda: "\n".join([("node_harness!(#[kani::unwind(12)] %s, %s);" % (nm, call)) if stub else
                                      ("#[kani::proof]\n#[kani::unwind(12)]\nfn %s() { %s; }" % (nm, call)) for (nm, call, stub, _t) in BT_SHAPES] +
                                     ["node_harness!(#[kani::unwind(13)] #[kani::stub(super::Node::write_split_child, stub_write_split_child)] u70_insert_node_n%d_at%d, u70_insert_node(%d, %d));" % (n, at, n, at) for (n, at) in U70_SHAPES] +
                                     ["node_harness!(#[kani::unwind(13)] #[kani::stub(super::Node::write_split_child, stub_write_split_child)] #[kani::stub(super::Node::create_separator, stub_create_separator)] u71_insert_leaf_n%d, u71_insert_leaf(%d));" % (n, n) for n in range(0, 9)] +
                                     ["node_harness!(#[kani::unwind(13)] #[kani::stub(crate::column::Column::write_existing_value_plan, stub_write_existing_value_plan)] u72_remove_leaf_n%d, u72_remove_leaf(%d));" % (n, n) for n in range(0, 9)]))
for _n in range(0, 9):
    M_BTNODE.harnesses.append(H("u72_remove_leaf_n%d" % _n, "U72", kind="proof", tiers=("quick", "thorough") if _n in (1, 4, 8) else ("thorough",),
                                shape="Node::on_existing on a leaf with %d key(s); the key is arbitrary (present or absent), the value goes away or stays" % _n))
for _n in range(0, 9):
    M_BTNODE.harnesses.append(H("u71_insert_leaf_n%d" % _n, "U71", kind="proof", tiers=("quick", "thorough") if _n in (0, 3, 8) else ("thorough",),
                                shape="Node::insert into a leaf with %d key(s); the key inserted is arbitrary (present or absent, any position)" % _n))
for (_n, _at) in U70_SHAPES:
    M_BTNODE.harnesses.append(H("u70_insert_node_n%d_at%d" % (_n, _at), "U70", kind="proof", tiers=("quick", "thorough") if (_n, _at) in U70_QUICK else ("thorough",),
                                shape="Node::insert_node into an inner node with %d separator(s), position %d" % (_n, _at)))
for (nm, call, stub, tiers) in BT_SHAPES:
    M_BTNODE.harnesses.append(H(nm, "U12", kind="bounded" if stub else "proof", tiers=tiers, shape=call,
                                bound="parent sizes {1,4,8}, sibling sizes {4,5,8}; child I/O (fetch_child / write_child / write_plan_remove_node) by contract" if stub else None))

CODEC_LENS = [0, 1, 2, 16, 254, 255, 256, 300]
M_BTMOD = KModule("btree_mod", "src/btree/mod.rs", "verif_btree_mod", "btree_mod.rs",
                  lambda: "\n".join("#[kani::proof]\n#[kani::unwind(%d)]\n#[kani::stub(std::fmt::format, crate::verif_stubs::fmt_format)]\nfn u12_codec_sep_len%d() { u12_codec_separator::<%d>(); }" % (L + 20, L, L) for L in CODEC_LENS),
                  deps=(M_LOG, M_TABLE))
for L in CODEC_LENS:
    M_BTMOD.harnesses.append(H("u12_codec_sep_len%d" % L, "U12", kind="bounded", tiers=("quick", "thorough") if L in (0, 2, 254, 255) else ("thorough",),
                               shape="write_separator/read_separator, key length %d" % L, bound="key lengths {0,1,2,16,254,255,256,300} (both sides of the 255 length escape)"))
M_BTMOD.harnesses.append(H("u12_codec_header_and_null_child", "U12"))
M_BTMOD.harnesses.append(H("u41_btree_commit_sorts_operations_and_persists_the_root", "U41", kind="bounded", shape="BTreeChangeSet::write_plan with two operations (Set k0, Dereference k1), arbitrary one-byte keys, arbitrary root/depth before and after",
                           bound="2 operations, 1-byte keys; BTree::{open,write_sorted_changes} and the header write by contract"))
M_BTMOD.harnesses.append(H("u19_tree_column_maintenance_reaches_every_table", "U19", kind="bounded", bound="a btree column with 3 value tables"))
M_COLUMN.harnesses.append(H("u19_hash_column_maintenance_reaches_every_table", "U19", kind="bounded", bound="a hash column with 1 value table"))

M_BTTREE = KModule("btree_tree", "src/btree/btree.rs", "verif_btree_tree", "btree_tree.rs")
M_BTTREE.harnesses.append(H("u23_root_bookkeeping", "U23", kind="bounded", shape="BTree::write_sorted_changes, one change, scripted child outcome (no-op / root split / root collapse)",
                            bound="one change per call; Node::{change,need_remove_root}, BTree::fetch_root, BTreeTable::{write_node_plan,write_plan_remove_node} by contract"))
M_DB = KModule("db", "src/db.rs", "verif_db", "db.rs", deps=(M_LOG, M_TABLE, M_INDEX, M_COLUMN, M_BTMOD))
M_DB.harnesses.append(H("u21_replay_applies_only_the_next_record_in_sequence", "U21", kind="bounded",
                        shape="DbInner::enact_logs(validation) on one empty record with arbitrary record id and arbitrary last-enacted id",
                        bound="a database without columns and a record without actions; Log::{read_next,end_read,clear_replay_logs} and LogReader::{next,reset} by contract"))

M_DB.harnesses.append(H("u24_operations_are_ordered_by_key_only", "U24"))
for n in ["u30_get_consults_commit_overlay_then_column", "u30_get_size_is_the_length_of_what_get_returns"]:
    M_DB.harnesses.append(H(n, "U30", kind="bounded", shape="DbInner::%s on a database with one hash column; overlay state and column content scripted (arbitrary)" % ("get_size" if "size" in n else "get"),
                            bound="one hash column; CommitOverlay::get_ref, HashColumn::{hash_key,get} by contract"))
for n in ["u30_btree_get_consults_commit_overlay_then_tree", "u30_btree_get_size_is_the_length_of_what_get_returns"]:
    M_DB.harnesses.append(H(n, "U30", kind="bounded", shape="DbInner::%s on a database with one btree column; overlay state and tree content scripted (arbitrary)" % ("get_size" if "size" in n else "get"),
                            bound="one btree column; CommitOverlay::btree_get and BTreeTable::get by contract"))
for n in ["u38_node_read_from_overlay_then_column_and_unpacked", "u38_node_children_read_from_overlay_then_column"]:
    M_DB.harnesses.append(H(n, "U38", kind="bounded", shape="DbInner::%s on a multitree column; node with 2 data bytes and 1 child, contents and address arbitrary" % ("get_node_children" if "children" in n else "get_node"),
                            bound="one node shape (2 data bytes, 1 child); CommitOverlay::get_address and HashColumn::get_value by contract; unpack_node_* real"))
for n in ["u31_data_flushed_before_logs_are_reclaimed", "u31_clean_all_logs_flushes_first"]:
    M_DB.harnesses.append(H(n, "U31", kind="bounded", shape="DbInner::%s; dirty-log count, sync_data and flush outcome arbitrary" % ("clean_all_logs" if "all" in n else "clean_logs"),
                            bound="one column; Column::flush, Log::{num_dirty_logs,clean_logs} by contract"))
M_DB.harnesses.append(H("u33_shutdown_drains_every_stage_in_order", "U33", kind="bounded", shape="DbInner::kill_logs with up to 2 commits in each of the three stages",
                        bound="<= 2 items per stage; DbInner::{process_commits,flush_logs,enact_logs,clean_all_logs} and Log::kill_logs by contract over ghost counters"))
for n, sh in [("u34_first_background_error_is_kept_and_stops_the_workers", "DbInner::store_err twice (first outcome arbitrary)"),
              ("u34_commit_refused_in_background_error_state_leaves_no_trace", "DbInner::commit_raw of an empty transaction with and without a recorded background error"),
              ("u34_shutdown_after_background_error_applies_nothing", "DbInner::kill_logs with a recorded background error and up to 2 commits per stage")]:
    M_DB.harnesses.append(H(n, "U34", kind="bounded", shape=sh, bound="one column, empty transaction / <= 2 items per stage; stage functions by contract"))
for n in ["u39_compressed_form_is_the_compressor_output", "u39_value_decompressed_exactly_when_the_entry_is_compressed"]:
    M_COLUMN.harnesses.append(H(n, "U39", kind="bounded", shape=n[4:].replace("_", " "), bound="values / compressor outputs of at most 4 bytes; 2-3 value tables; Compress::{compress,decompress} and ValueTable::query by contract"))
M_COLUMN.harnesses.append(H("u40_write_plan_dispatch", "U40", kind="bounded", shape="HashColumn::write_plan for Set / Reference / Dereference / tree operation on an indexed or absent key",
                            bound="search_all_indexes, write_plan_existing, write_plan_new by contract (U15)"))
for n in ["u29_get_searches_current_then_every_queued_index", "u29_get_size_is_the_length_of_the_value"]:
    M_COLUMN.harnesses.append(H(n, "U29", kind="bounded", shape="HashColumn::%s with an 18-bit current index and two queued older indexes; get_in_index by contract" % ("get_size" if "size" in n else "get"),
                                bound="two queued old indexes; HashColumn::get_in_index by contract (U13)"))

# ---------------------------------------------------------------- U58: BTreeIterState walk over the node stack (two-level trees)
def _arr9(l):
    return "[%s]" % ", ".join(str(x) for x in (list(l) + [0] * 9)[:9])


# (root separators, leaf sizes): minimal, uneven, a full leaf (ORDER = 8), an empty last leaf is not a legal tree
BTI_SHAPES = [(1, (1, 1)), (2, (2, 1, 2)), (1, (8, 3)), (2, (1, 8, 1)), (3, (1, 1, 1, 1))]
BTI_QUICK = {(2, (2, 1, 2)), (1, (8, 3))}


def _gen_btree_iter():
    out = []
    for (nr, nl) in BTI_SHAPES:
        tag = "r%d_%s" % (nr, "_".join(str(x) for x in nl))
        n = sum(nl) + nr
        out.append("iter_harness!(#[kani::unwind(12)] u58_walk_%s, u58_walk(%d, %s, %d));" % (tag, nr, _arr9(nl), 4))
        out.append("iter_harness!(#[kani::unwind(12)] u58_seek_%s, u58_seek(%d, %s));" % (tag, nr, _arr9(nl)))
        out.append("iter_harness!(#[kani::unwind(12)] u58_seek_exclude_%s, u58_seek_exclude(%d, %s));" % (tag, nr, _arr9(nl)))
        out.append("iter_harness!(#[kani::unwind(12)] u58_seek_last_%s, u58_seek_last(%d, %s));" % (tag, nr, _arr9(nl)))
    return "\n".join(out)


M_BTITER = KModule("btree_iter", "src/btree/iter.rs", "verif_btree_iter", "btree_iter.rs", _gen_btree_iter, deps=(M_LOG, M_TABLE, M_BTMOD))
for (_nr, _nl) in BTI_SHAPES:
    _tag = "r%d_%s" % (_nr, "_".join(str(x) for x in _nl))
    _t = ("quick", "thorough") if (_nr, _nl) in BTI_QUICK else ("thorough",)
    _sh = "two-level tree: root with %d separator(s), leaves of %s separators" % (_nr, "/".join(str(x) for x in _nl))
    _bd = "tree shapes %s (root separators, leaf sizes); 4 steps per walk; one-byte keys; node and value reads by contract" % (BTI_SHAPES,)
    M_BTITER.harnesses.append(H("u58_walk_" + _tag, "U58", kind="bounded", tiers=_t, shape="BTreeIterState::next, 4 steps in arbitrary directions from the start/end position; " + _sh, bound=_bd))
    M_BTITER.harnesses.append(H("u58_seek_" + _tag, "U58", kind="bounded", tiers=_t, shape="BTreeIterState::seek(Include(k)) for every present and absent k, then two steps in arbitrary directions; " + _sh, bound=_bd))
    M_BTITER.harnesses.append(H("u58_seek_exclude_" + _tag, "U58", kind="bounded", tiers=_t, shape="BTreeIterState::seek(Exclude(k)), then one step; " + _sh, bound=_bd))
    M_BTITER.harnesses.append(H("u58_seek_last_" + _tag, "U58", kind="bounded", tiers=_t, shape="BTreeIterState::seek_to_last, then one step; " + _sh, bound=_bd))

M_OPTIONS = KModule("options", "src/options.rs", "verif_options", "options.rs")
for n in ["u35_metadata_1_1", "u35_metadata_2_2", "u35_metadata_1_2", "u35_metadata_2_1"]:
    M_OPTIONS.harnesses.append(H(n, "U35", kind="bounded", shape="Options::load_and_validate_metadata, requested/stored column counts %s/%s, all flags arbitrary" % (n[-3], n[-1]),
                                 bound="at most 2 columns; Options::{load_metadata,write_metadata} by contract; a salt is given"))
# (u35_column_flag_validity exists in the contract file but pins the exact set of rejected flag combinations, which C17 does not state: not registered)
# units whose harnesses call the real code without recorder / contract stubs: Kani's counterexample replays natively
NATIVE_REPLAY_UNITS = {"U1", "U2", "U4", "U5", "U7", "U11"}
KMODULES = {"index": M_INDEX, "table": M_TABLE, "log": M_LOG, "column": M_COLUMN, "ref_count": M_REFCOUNT, "btree_node": M_BTNODE, "btree_mod": M_BTMOD, "db": M_DB, "btree_tree": M_BTTREE, "options": M_OPTIONS, "btree_iter": M_BTITER}


def kmodule_of_unit(unit):
    for m in KMODULES.values():
        if any(h.unit == unit for h in m.harnesses):
            yield m


# ---------------------------------------------------------------- properties
# per property: list of (unit, backend) ; level; claim text pieces
PROPS = {
    "C19": {
        "kani_units": ["U1", "U2"],
        "verus_units": ["index_search"],
        "level": "proof",
        "technique": "function contracts on the real find_entry_sse2/find_entry_base/find_entry discharged by Kani/CBMC (complete: loop bounds are program constants, all inputs symbolic) + Verus loop-invariant proof of find_entry_base",
        "claim": "Contract R1-R4 (hit is real and at/after p; no exact match skipped; first slot agreeing on the fast-path bits; miss reported as empty) is proved for find_entry_base, find_entry_sse2 and find_entry on the real code for every page content, key and index size 16..=49, one complete proof per start position (quick: 10 positions covering every alignment residue and both ends; thorough: all 65).",
        "level_note": "Trusted: PSRLQ stub = Intel SDM semantics; Kani's SIMD intrinsic models; rustc/Kani/CBMC/Verus/Z3. Quick tier covers a subset of start positions (each proved completely); thorough covers all.",
        "exhaustive_tiers": ["thorough"],
        "trusted_base": ["rustc, Kani 0.68, CBMC 6.11, kissat/CaDiCaL, Verus 0.2026.09.13, Z3"],
        "explanation": "Per start position p (concrete), Kani proves the search contract over a fully symbolic 512-byte page, key and index size; Verus proves find_entry_base's loop invariant unboundedly on the extracted function text.",
        "does_not_cover": ["non-x86_64 builds use find_entry_base only (same contract)", "hardware PSRLQ is trusted to match the SDM"],
    },
}

TB = ["rustc, Kani 0.68, CBMC 6.11, kissat/CaDiCaL, Verus 0.2026.09.13, Z3 (the verifiers themselves)"]

PROPS["C09"] = {
    "kani_units": ["U1", "U2b", "U3", "U4", "U15", "U22", "U29"],
    "verus_units": ["index_search", "lookup_chain"],
    "level": "other",
    "technique": "Kani/CBMC contracts on the real index codec, page update and key recovery (complete over all pages/keys/index sizes) + Verus proof of the real collision-chain lookups against callee contracts",
    "claim": "Decided by contracts, for all inputs: (a) an entry moved to any larger index lands in the page and carries the partial key its original key would have had (key recovery lemma, all 256-bit keys, all size pairs 16..=49); (b) entry/address codec is an inverse pair; (c) page insert never overwrites a live slot, replace touches only the confirmed slot, remove only a slot whose partial key matches, address overflow forces growth, nothing else in the page changes; (d) the lookup chains (get_in_index, contains_partial_key_with_address) never stop at a candidate whose stored key/address differs, never skip an exact match, and terminate. The composition into 'any number of growths interleaved with commits, reads, restarts' is a history/schedule property and is not mechanised.",
    "level_note": "Trusted: LogWriter::insert_index contract (recorder), IndexTable::get = page search contract lifted through the log overlay / mmap (assumed), Column::get_value contract (assumed; checked boundedly under C06). Reindex scheduling, progress bookkeeping, drop_index ordering, crash during growth are not covered.",
    "trusted_base": TB,
    "explanation": "U1/U3/U4: complete Kani proofs (loop bounds are program constants, inputs fully symbolic). U13: Verus, unbounded, modular (callee contracts assumed as listed). Level 'other' because the end-to-end statement over histories is not mechanised and U13 rests on assumed callee contracts.",
    "does_not_cover": ["interleaving of reindex batches with commits and reads", "reindex.progress bookkeeping / drop_index ordering", "restart or crash during growth", "write_reindex_plan_locked retry loop and trigger_reindex (lock-guard code neither tool parses)"],
}
PROPS["C20"] = {
    "kani_units": ["U1", "U4", "U16"],
    "verus_units": ["migrate_item"],
    "level": "proof",
    "technique": "Kani/CBMC loop-free contracts on the real recover_key_prefix / key splice, complete over all keys and index sizes",
    "claim": "For every 32-byte hashed key, index size 16..=49 and valid address: the key that migration feeds to the destination (page number + partial key recovered by recover_key_prefix, spliced with the 26-byte key tail stored with the value) equals the source key bit for bit, and the entry's address is preserved. This is the data-dependent core of 'every key of the source returns the same value'.",
    "level_note": "Covers only the key-recovery obligation. The rc-fold re-commit loop, column selection, file copying and overwrite mode are driven by closures over two open databases and are out of reach (DESIGN §4 C20).",
    "exhaustive_tiers": ["quick", "thorough"],
    "trusted_base": TB,
    "explanation": "Loop-free harnesses over fully symbolic inputs: complete proofs.",
    "does_not_cover": ["the `for _ in 0..rc` re-commit loop", "column selection, file copying, overwrite mode", "reference counts of the destination"],
}
PROPS["C06"] = {
    "kani_units": ["U5", "U6", "U7", "U39", "U8d", "U14"],
    "verus_units": [],
    "level": "other",
    "technique": "Kani/CBMC contracts on the real entry-header codec and tier selection (complete) and on the chain writer/reader against the on-disk format specification (bounded shapes)",
    "claim": "Proved for all inputs: entry-header codec round trips, size/flag words never collide with the four markers (the record classifier is a partition), value_size arithmetic, SIZES strictly increasing and tier selection minimal and total. Bounded (entry sizes 32/33/48/64, <= 3 parts): overwrite_chain in insert / replace / claimed mode emits exactly the on-disk format FMT for (key, rc=1, value, compressed) on the slots popped LIFO from the free list then taken from the fill mark, releases every surplus old part as a tombstone linked in front of the free list, and keeps filled/last_removed/dirty_header exact; query/size/partial_key_at/has_key_at map any FMT chain back to (value, flag, rc) and reject tombstones, continuation parts, zero counters and foreign keys. Read-after-write, overwrite to any other length, and release-and-reuse follow by composition through FMT (on paper).",
    "level_note": "Chain writer/reader are BOUNDED stand-ins (real multipart part size 4096 and 255 tiers are not covered; small sizes exercise the same capacity comparisons). Trusted: LogWriter contract (ghost view: last write wins), lz4/snappy inverse, fmt::format stub (error text outside every claim).",
    "trusted_base": TB,
    "explanation": "U5/U7 complete proofs; U6 bounded by shape (one generated harness per concrete shape, contents symbolic), never counted as proved.",
    "does_not_cover": ["real part size 4096 / MiB values", "lz4 / snappy themselves", "write_existing_value_plan tier-move path", "reads through the mmap'd file (only the log view is modelled)"],
}
PROPS["C14"] = {
    "kani_units": ["U14", "U3", "U1", "U15", "U19", "U23", "U41"],
    "verus_units": [],
    "level": "other",
    "technique": "Kani/CBMC contracts on the real free-list operations and index page update (bounded tables / complete page proofs)",
    "claim": "One-operation preservation of the structural partition: clear_slot pushes exactly the freed slot (tombstone linked to the previous head), next_free pops exactly the head and restores the previous head or extends the fill mark by one, rejects an out-of-range link without handing anything out; removing a chain frees every part exactly once in chain order; the header record (last_removed, filled) is emitted iff either changed; an index page update touches exactly one slot.",
    "level_note": "Bounded (48-byte entries, fill mark <= 7, <= 3-part chain) except the index page obligations (complete). The global invariant over histories, btree reachability and node reference counts are not covered.",
    "trusted_base": TB,
    "explanation": "Bounded stand-ins for the free list; complete proofs for the index page.",
    "does_not_cover": ["the global invariant over histories", "btree reachability / depth", "node reference counts", "index slot removed in the same plan as its value (caller property)"],
}
PROPS["C13"] = {
    "kani_units": ["U9", "U21"],
    "verus_units": ["log_mask_walk"],
    "level": "proof",
    "technique": "Kani/CBMC contracts on the real validate_plan functions with LogReader::read replaced by its contract (arbitrary bytes or failure)",
    "claim": "For every byte content of a log record and every index: ValueTable::validate_plan, IndexTable::validate_plan / skip_plan and RefCountTable::validate_plan return Ok or Err without panicking or reading outside their buffers; a value record accepted by validation is at most entry_size bytes (fits its slot) and an index / ref-count record accepted by validation names a chunk inside the file; validation and skipping of index / ref-count chunk records consume exactly 8 + ENTRY_BYTES*popcount(mask) bytes and terminate, for every 64-bit mask (Verus, unbounded; Kani cross-checks popcount classes on the real LogReader type).",
    "level_note": "Trusted: LogReader::read contract (fills the buffer or fails), crc32fast constructor stub. CRC computation/comparison, record-id sequencing, clear_replay_logs, discarding later files are in LogReader::next / DbInner::enact_logs / Log::open (BufReader<File> closures, directory scans) and are not covered. enact_plan is not run (mmap / 32 KiB-buffer cost); 'apply parses as validate does' is argued from the identical code shape, not proved. Two genuine defects found by these obligations were fixed (known_findings.json).",
    "trusted_base": TB,
    "explanation": "Loop-free (value) or constant-bounded (mask walk, popcount classes) harnesses over fully symbolic records.",
    "does_not_cover": ["CRC and record sequencing", "enact_plan bodies", "file discovery / discarding"],
}

PROPS["C10"] = {
    "kani_units": ["U11", "U14", "U38"],
    "verus_units": ["tree_deref", "indexed_write_plan"],
    "syntactic": ["claim_tree_values_checks_before_claim"],
    "level": "other",
    "technique": "Kani/CBMC contracts on the real packed-node decoder and on the representability check of the encoder",
    "claim": "Reader side: unpack_node_data / unpack_node_children invert the packed-node format (data ++ LE64(child)* ++ count) for child counts 0..=3 and never panic on arbitrary input, rejecting exactly the inconsistent lengths (bounded input length). Writer side: the child count of every new node is passed through packed_child_count, proved to accept exactly 0..=255 (an unrepresentable fan-out is rejected before any slot is claimed; fix 119116d).",
    "level_note": "The packing code itself (claim_tree_values / claim_node / claim_children_to_data: std HashMaps, lock guards, recursion) is out of reach of both back ends; reference counting of shared nodes and reclamation are not covered.",
    "trusted_base": TB,
    "explanation": "Decoder: one harness per concrete (child count, data length), contents symbolic: bounded. packed_child_count: complete over all usize.",
    "does_not_cover": ["claim_tree_values / claim_node bodies", "node reference counts, reclamation", "multi-part nodes"],
}

PROPS["C08"] = {
    "kani_units": [],
    "verus_units": ["overlay_publish", "commit_publish"],
    "syntactic": ["commit_raw_checks_before_publish", "claim_tree_values_checks_before_claim", "commit_changes_claims_nothing_before_validation"],
    "level": "other",
    "technique": "Verus contracts on the real validation (check) and publication (copy_to_overlay) functions of both change-set kinds, extracted from /repo on every run",
    "claim": "For hash and btree change sets: check() accepts exactly the transactions all of whose operations are valid for the column (Set/Dereference; Reference only with reference counting; no tree operation); copy_to_overlay never fails on a transaction that passed check() (publication cannot stop half way), publishes exactly the in-order fold of the operations tagged with the commit id (last operation on a key wins) and leaves the other overlays untouched. That commit_raw runs every check() before taking a commit id and publishing is checked syntactically on the function text (reported as an assumption, not a proof). The defect this exposed was fixed (4d64658).",
    "level_note": "Trusted: std HashMap/BTreeMap insert contract on opaque overlay types; RcValue::clone returns an equal value; byte counters do not overflow for memory-resident data (explicit precondition). Not covered: claimed node slots / to_dereference counters taken in commit_changes before a later operation fails, background-error state, persistence.",
    "trusted_base": TB,
    "explanation": "Verus, unbounded over operation lists; modular over the map contracts. Level 'other' because the step from commit_raw to these functions is a syntactic check and multi-stage visibility is not mechanised.",
    "does_not_cover": ["side effects of commit_changes before commit_raw (claimed node slots, to_dereference)", "bg_err state", "clean_overlay (Entry API)"],
}
PROPS["C07"] = {
    "kani_units": ["U8d", "U17", "U15", "U24"],
    "verus_units": ["ref_counter", "overlay_publish", "iter_while"],
    "level": "other",
    "technique": "Verus proof of the counter transition fragment of the real change_ref (all u32 counters) and of the overlay mirroring rules",
    "claim": "The counter transition applied by change_ref is, for every 32-bit counter: +1 (saturating into the lock value u32::MAX), locked stays locked, -1 while >= 2, and 'remove' (nothing written, false returned) when the count would reach zero; Reference / ref-counted Dereference are never mirrored in the commit overlay while Set is (U10). The per-operation dispatch (write_existing_value_plan) and histories are not covered.",
    "level_note": "The transition is proved on a verbatim fragment of change_ref's body (rule R8) wrapped by a hand-written function: the buffer handling around it (32 KiB entry buffer, to_vec) is outside Verus' subset and exhausts CBMC. Trusted: Buf::read_rc returns the stored counter (U5.rc.roundtrip, proved by Kani under C06).",
    "trusted_base": TB,
    "explanation": "Verus, complete over all u32 counters for the extracted fragment; 'other' because the surrounding function and the operation dispatch are not under contract.",
    "does_not_cover": ["write_existing_value_plan dispatch", "ignored on absent keys (HashColumn::write_plan)", "histories, restarts, value iteration with counts", "frame of change_ref (other entry bytes untouched)"],
}

PROPS["C04"] = {
    "kani_units": ["U12", "U23", "U41", "U24", "U30"],
    "verus_units": ["iter_reposition", "iter_merge"],
    "level": "other",
    "technique": "Kani/CBMC contracts on the real btree node operations (array operations complete over ORDER=8; rebalance with child I/O replaced by contracts)",
    "claim": "Node level only: remove_from / shift_from preserve the order and content of the remaining separators and children and keep the node packed; number_separator / last_separator_index / need_rebalance are exact; Node::rebalance (borrow from left, borrow from right, merge; leaf and inner nodes) preserves the in-order sequence of separators and children across parent and siblings, moves exactly one separator through the parent, and releases exactly the merged-away node. Iterator semantics and the whole-tree invariant over histories are not covered.",
    "level_note": "rebalance: child I/O (fetch_child / write_child / write_plan_remove_node) replaced by the contract 'a node reads back as written'; keys are not inspected by these operations and are empty in the harnesses. Not covered: insert / on_existing / change recursion, position (key comparison), node codec for long keys, BTreeIterator.",
    "trusted_base": TB,
    "explanation": "Array operations: complete for every node size and position (ORDER is a program constant). rebalance: bounded family of (parent size, position, sibling sizes).",
    "does_not_cover": ["iterator semantics (seek/next/prev against a moving database)", "whole-tree order and uniform depth over histories", "insert / split path", "key comparison in position()"],
}

UNIT_META = {
    "U12": {"functions": ["btree::node::Node::{remove_from,shift_from,number_separator,last_separator_index,need_rebalance,remove_separator,remove_child,set_separator,set_child,has_separator,rebalance}"],
            "assumes": ["Node::fetch_child / Node::write_child / BTreeTable::write_plan_remove_node replaced by contracts (a node reads back as written)"]},
    "U5": {"functions": ["table::Entry::{write_size,read_size,write_next,read_next,write_rc,read_rc,write_u64,read_u64,write_u32,read_u32,skip_size,skip_next,write_tombstone,write_multipart,write_multihead,write_multihead_compressed,is_tombstone,is_multipart,is_multihead,is_multihead_compressed,is_multi}",
                         "table::Header::{last_removed,set_last_removed,filled,set_filled}", "table::ValueTable::{value_size,ref_size}", "table::TableId::{new,col,size_tier,log_index,from_log_index}", "table::key::TableKey::encoded_size"], "assumes": []},
    "U6": {"functions": ["table::ValueTable::{overwrite_chain,write_insert_plan,write_replace_plan,write_claimed_plan,next_free,read_next_free,read_next_part,clear_chain,clear_slot}",
                         "table::ValueTable::{for_parts,query,size,partial_key_at,has_key_at,is_tombstone}", "table::key::TableKey::{write,fetch,fetch_partial,compare}"],
           "assumes": ["LogWriter::{insert_value,value,value_ref} replaced by a ghost view implementing their contract (finite map, last write wins)",
                       "fmt::format stub (error text outside every claim)", "parking_lot slow paths unreachable (stubs panic: a checked side condition)"]},
    "U7": {"functions": ["column::Column::compress", "column::SIZES"], "assumes": ["compress is exercised with NoCompression; lz4/snappy are trusted to be inverse"]},
    "U8": {"functions": ["table::ValueTable::change_ref (counter-transition fragment)"], "assumes": ["fragment wrapped by a hand-written function (rule R8)"]},
    "U9": {"functions": ["table::ValueTable::validate_plan", "index::IndexTable::{validate_plan,skip_plan}", "ref_count::RefCountTable::validate_plan"],
           "assumes": ["LogReader::read replaced by its contract (arbitrary bytes or failure)", "crc32fast::Hasher::new stubbed by its portable constructor"]},
    "U8d": {"functions": ["column::Column::write_existing_value_plan"],
            "assumes": ["ValueTable::{write_replace_plan,write_remove_plan,write_insert_plan,write_inc_ref,write_dec_ref} replaced by their contracts (recorders asserting the callee precondition); the contracts are checked on the real functions under U6/U8/U14",
                        "Column::compress with NoCompression"]},
    "U15": {"functions": ["column::HashColumn::{write_reindex_plan_locked,write_plan_new,write_plan_existing}"],
            "assumes": ["IndexTable::{write_insert_plan,write_remove_plan}, HashColumn::{trigger_reindex,contains_partial_key_with_address}, Column::{write_new_value_plan,write_existing_value_plan} replaced by contracts (recorders); those contracts are the ones checked under U3/U13/U6/U8d, except trigger_reindex (assumed: same locks, fresh larger current index)"]},
    "U16": {"functions": ["column::HashColumn::iter_index_internal"],
            "assumes": ["IndexTable::entries returns the chunk's 64 entries (U1.transmute_is_le_word); ValueTable::get_with_meta returns the stored value/count/key tail (U6.R)"]},
    "U17": {"functions": ["column::HashColumn::iter_values"], "assumes": ["ValueTable::iter_while replaced by its contract (calls the callback for the table's live entries)"]},
    "U19": {"functions": ["column::Column::{refresh_metadata,complete_plan}", "column::HashColumn::{refresh_metadata,complete_plan}", "btree::BTreeTable::{refresh_metadata,complete_plan}"],
            "assumes": ["ValueTable::{refresh_metadata,complete_plan} replaced by counters (their own contracts: U14.complete_plan.*)"]},
    "U20": {"functions": ["column::HashColumn::reindex"], "assumes": ["IndexTable::entries returns the chunk's entries (U1)"]},
    "U21": {"functions": ["db::DbInner::enact_logs (validation mode: sequence gate, validate-then-apply order)"],
            "assumes": ["Log::{read_next,end_read,clear_replay_logs} and LogReader::{next,reset} replaced by contracts; the record has no actions"]},
    "U22": {"functions": ["column::HashColumn::{trigger_reindex,drop_index}"], "assumes": ["IndexTable::drop_file replaced by a counter (file removal)"]},
    "U23": {"functions": ["btree::btree::BTree::write_sorted_changes"], "assumes": ["Node::change / need_remove_root / BTree::fetch_root / BTreeTable::write_node_plan / write_plan_remove_node replaced by contracts (scripted outcomes)"]},
    "U24": {"functions": ["db::Operation::{cmp,partial_cmp,key}"], "assumes": []},
    "U32": {"functions": ["log::Log::flush_one"], "assumes": ["std::fs::File::sync_data replaced by its contract (recorder)", "the File is a raw descriptor never used for I/O; the write buffer is empty (BufWriter::into_inner performs no write)", "only the successful-sync path is exercised"]},
    "U34": {"functions": ["db::DbInner::store_err", "db::DbInner::commit_raw (background-error gate)", "db::DbInner::kill_logs (background-error path)"],
            "assumes": ["commit_raw is exercised with an empty transaction (non-empty std HashMaps cannot be built under CBMC)", "stage functions of kill_logs by contract (as U33)"]},
    "U35": {"functions": ["options::Options::load_and_validate_metadata", "options::ColumnOptions (derived equality)"],
            "assumes": ["Options::load_metadata (read and parse the metadata file) and Options::write_metadata replaced by contracts", "a salt is given in the options (the random salt of a fresh database is outside the harness)", "error text (format!) stubbed"]},
    "iter_while": {"functions": ["table::ValueTable::iter_while"],
                   "assumes": ["the chain reader with its collecting closure (for_parts(Fetch, index, log, |buf| result.extend_from_slice(buf))) is replaced by a contract returning what the slot holds (live chain / zero counter / not a value head / read failure); its ingredients are checked boundedly under C06 (U6-R)",
                               "the client callback becomes a recorder object (rewrite of the call expression, listed); AtomicU64::load and Error are stand-ins declared in the template",
                               "slot 0 is the table header: the walk is specified over slots 1..written"]},
    "indexed_write_plan": {"functions": ["db::IndexedChangeSet::write_plan"],
                           "assumes": ["HashColumn::{write_plan (U40), write_address_value_plan, write_address_inc_ref_plan, get}, DbInner::get_tree, the tree reader lock and write_dereference_children_plan (U18) are contracts appending abstract events to the record under assembly",
                                       "the local `column` that shadows the parameter is renamed (listed rewrites); `db: &Arc<DbInner>` becomes `&DbInner`",
                                       "DbInner::get_tree does not fail (the code unwraps its result)"]},
    "commit_publish": {"functions": ["db::DbInner::commit_raw (validate-then-publish block: from the first validation loop to the construction of the queue entry; fragment)"],
                       "assumes": ["the lock guards `queue` / `overlay` of the real function become &mut parameters of a hand-written wrapper (rule R8); loops get iterator names and `&map` becomes `map.iter()` (listed rewrites)",
                                   "IndexedChangeSet / BTreeChangeSet::{check, copy_to_overlay} carry the contracts proved by unit overlay_publish (check accepts exactly valid change sets; copy_to_overlay cannot fail on a valid one); the byte-counter preconditions of copy_to_overlay are assumed",
                                   "every column id named by the transaction indexes the overlay vector (precondition; commit_changes indexes options.columns with the same ids)",
                                   "statements of commit_raw before the first validation loop (queue-full wait, background-error gate: U34) are outside the fragment"]},
    "U40": {"functions": ["column::HashColumn::write_plan"], "assumes": ["HashColumn::{search_all_indexes,write_plan_existing,write_plan_new} replaced by contracts (recorders; their own contracts are U15 / U15c)"]},
    "U41": {"functions": ["btree::commit_overlay::BTreeChangeSet::write_plan"], "assumes": ["BTree::open (header read), BTree::write_sorted_changes (U23 and node units) and Column::write_existing_value_plan (header entry write) replaced by contracts"]},
    "U39": {"functions": ["column::Column::{compress,get_value}"], "assumes": ["Compress::compress / decompress (lz4, snappy) replaced by contracts: compress returns a byte string of arbitrary length, decompress the original", "ValueTable::query replaced by its contract (U6-R)"]},
    "U38": {"functions": ["db::DbInner::{get_node,get_node_children}", "column::{unpack_node_data,unpack_node_children}"],
            "assumes": ["CommitOverlay::get_address (std HashMap lookup) and HashColumn::get_value replaced by contracts (scripted)", "one node shape: 2 data bytes, 1 child"]},
    "U31": {"functions": ["db::DbInner::{clean_logs,clean_all_logs}"], "assumes": ["Column::flush (msync / fsync of every table of the column), Log::num_dirty_logs and Log::clean_logs (truncate and recycle log files) replaced by contracts (recorders)"]},
    "U33": {"functions": ["db::DbInner::kill_logs"], "assumes": ["DbInner::{process_commits,flush_logs,enact_logs,clean_all_logs} and Log::kill_logs replaced by contracts over ghost stage counters: process_commits moves one queued commit into the appending log, flush_logs makes the appending log readable, enact_logs applies one readable record, each reporting whether it did anything"]},
    "U29": {"functions": ["column::HashColumn::{get,get_size}"], "assumes": ["HashColumn::get_in_index replaced by its contract (proved against its own callees by Verus, unit lookup_chain)"]},
    "U30": {"functions": ["db::DbInner::{get,get_size} (hash column branch and btree column branch)", "db::CommitOverlay::{get,get_size}"], "assumes": ["CommitOverlay::get_ref (std HashMap lookup) replaced by its contract: the latest queued write for the key, if any", "HashColumn::hash_key replaced by a scripted key (the same hashed key must reach overlay and column)", "HashColumn::get replaced by its contract (U29)"]},
    "U26": {"functions": ["log::LogWriter::{insert_index,insert_ref_count}"], "assumes": ["RandomState::new stubbed to fixed keys (hash seeds do not affect map semantics)", "chunk numbers are concrete (5 and 9): the map is the real std HashMap"]},
    "U11": {"functions": ["column::{unpack_node_data,unpack_node_children,packed_node_size,packed_child_count}"], "assumes": []},
    "U14": {"functions": ["table::ValueTable::{clear_slot,next_free,read_next_free,complete_plan,write_remove_plan,clear_chain}"], "assumes": ["LogWriter ghost view"]},
    "index_search": {"functions": ["index::Entry::*", "index::Address::*", "index::IndexTable::{chunk_index,find_entry_base}"], "assumes": ["read_entry contract (external_body; proved by Kani U1.read_entry_is_le_word)"]},
    "lookup_chain": {"functions": ["column::HashColumn::{get_in_index,contains_partial_key_with_address}"],
                     "assumes": ["IndexTable::get = U2's search contract lifted through with_index/mmap (external_body)", "Column::get_value contract (external_body)"]},
    "overlay_publish": {"functions": ["db::IndexedChangeSet::{check,copy_to_overlay}", "btree::commit_overlay::BTreeChangeSet::{check,copy_to_overlay}"],
                        "assumes": ["std map insert contract on opaque overlay types", "RcValue::clone/value contracts", "byte counters bounded (precondition)"]},
    "tree_deref": {"functions": ["db::IndexedChangeSet::write_dereference_children_plan"],
                   "assumes": ["HashColumn::write_address_dec_ref_plan lowers the count of exactly the given address (external_body)", "TreeReader::get_node_children (external_body, unconstrained)",
                               "termination not proved (needs finite acyclic stored trees)", "a record never holds 2^62 operations"]},
    "log_mask_walk": {"functions": ["index::IndexTable::{validate_plan,skip_plan}", "ref_count::RefCountTable::{validate_plan,skip_plan}"],
                      "assumes": ["LogReader::read contract (fills the buffer or fails; position advances by the buffer length)", "u64::from_le_bytes uninterpreted (only equality of the decoded mask matters)", "vstd axiom_u64_trailing_zeros"]},
    "migrate_item": {"functions": ["migration::migrate (body of the per-item closure passed to iter_column_index_while; fragment)"],
                     "assumes": ["captured variables of the closure become &mut parameters of a wrapper (identifier rewrites listed in extraction_notes)",
                                 "pushing a Set onto the pending change set, Db::commit_raw (success appends the pending operations in order; failure leaves the destination unchanged), mem::take, Vec::clone and the progress timer are replaced by their contracts (rewrites listed in extraction_notes)",
                                 "the progress counter ncommits does not overflow u64 (explicit precondition)"]},
    "iter_reposition": {"functions": ["btree::iter::BTreeIterator::{next_backend,seek_backend,seek_backend_to_last}"],
                        "assumes": ["the `&mut self` receiver is replaced by its fields as parameters (Verus has no `&mut` pattern bindings); rewrites listed in extraction_notes",
                                    "BTree::open under the table lock returns the tree as of the given record; BTreeIterState::{seek,seek_to_last} position the abstract cursor as asked; BTreeIterState::next answers from the cursor (contracts assumed: the node-level walk is not under contract)"]},
    "iter_merge": {"functions": ["btree::iter::BTreeIterator::iter_inner (merge step: from `let result = match (next_commit_overlay, next_backend)` to the end of the loop body; fragment)"],
                   "assumes": ["the fragment is wrapped by a hand-written method whose loop stands for iter_inner's loop (a `continue` re-enters it and is reported as 'go round again')",
                               "Vec<u8>::cmp replaced by a contract returning the three-way outcome of an uninterpreted order (no order property is used)",
                               "RcValue::value returns the shared bytes; Vec<u8>::clone returns an equal vector (vstd)",
                               "the candidates handed to the step are the commit overlay's and the backend's next keys beyond the current position (CommitOverlay::btree_next/prev, BTreeIterState::next: assumed)"]},
    "ref_counter": {"functions": ["table::ValueTable::change_ref (fragment)"], "assumes": ["Buf::read_rc models the entry buffer positioned at the counter"]},
    "U1": {
        "functions": ["index::Entry::{new,address_bits,last_address,address,partial_key,extract_key,is_empty,empty,as_u64,from_u64}",
                      "index::Address::{new,from_u64,offset,size_tier,as_u64}",
                      "index::TableId::{new,col,index_bits,log_index,from_log_index,total_chunks,total_entries}",
                      "index::IndexTable::{chunk_index,read_entry,write_entry,transmute_chunk}", "index::file_size"],
        "assumes": [],
    },
    "U2": {
        "functions": ["index::IndexTable::find_entry_base", "index::IndexTable::find_entry_sse2", "index::IndexTable::find_entry"],
        "assumes": ["PSRLQ (_mm_srl_epi64) stubbed by its Intel SDM semantics (Kani has no model of the LLVM psrlq intrinsic)",
                    "Kani's models of simd_shuffle / simd_eq / simd_bitmask / unaligned load are faithful to SSE2"],
    },
    "U2b": {
        "functions": ["index::IndexTable::get"],
        "assumes": ["the log view is a harness type implementing LogQuery::with_index by its contract (Kani cannot stub generic trait methods of LogWriter)", "the mmap'd file path is not exercised (no file in the harness): 'else the file's page' remains assumed"],
    },
    "U3": {
        "functions": ["index::IndexTable::plan_insert_chunk", "index::IndexTable::plan_remove_chunk"],
        "assumes": ["LogWriter::insert_index replaced by a recorder (contract: the record it is handed is what is logged)",
                    "RandomState::new stubbed (only empty HashMaps are constructed)"],
    },
    "U4": {
        "functions": ["index::IndexTable::recover_key_prefix", "table::key::TableKey::index_from_partial", "table::key::partial_key",
                      "index::Entry::{new,extract_key}", "index::IndexTable::chunk_index"],
        "assumes": [],
    },
}


# ---------------------------------------------------------------- claims as built (override the first-draft texts above)
PROPS["C09"].update({
    "technique": "Kani/CBMC contracts on the real index codec, page search/update, key recovery (complete over all pages/keys/index sizes) and on the growth dispatch and bookkeeping with callees replaced by contracts (bounded) + Verus proofs of the real collision-chain lookups",
    "claim": "Decided by contracts, for all inputs: (a) an entry moved to any larger index lands in the page and carries the partial key its original key would have had (key recovery, all 256-bit keys, all size pairs 16..=49); (b) entry/address codec is an inverse pair; (c) page insert never overwrites a live slot, replace touches only the confirmed slot, remove only a slot whose partial key matches, address overflow forces growth, nothing else in the page changes; IndexTable::get returns what the page search returns on the page the log view holds for the key's chunk; (d) the lookup chains (get_in_index, contains_partial_key_with_address) never stop at a candidate whose stored key/address differs, never skip an exact match, and terminate. Bounded (callees by contract, at most 2 stacked growths): a write plan looks the key up in the current index and then in every queued old index in order, replaces/removes the entry in the index it was found in, inserts new keys into the current index only, retries an insert that reports 'index full' after triggering growth; trigger_reindex queues the old index without touching the progress of an ongoing migration; drop_index removes exactly the drained index and restarts the scan of the next one from its first chunk. The composition into 'any number of growths interleaved with commits, reads, restarts' is a history/schedule property and is not mechanised.",
    "level_note": "Trusted: LogWriter::insert_index contract (recorder); the log view is a harness type implementing LogQuery::with_index by contract; reads through the mmap'd file are not exercised; Column::get_value contract (assumed; its ingredients are checked boundedly under C06); U15/U22 replace IndexTable / ValueTable callees by contract stubs that assert the callee's precondition. HashColumn::reindex (the batch builder) is written but not registered (does not finish).",
    "explanation": "U1/U2b/U3/U4: complete Kani proofs (loop bounds are program constants, inputs fully symbolic). U13: Verus, unbounded, modular. U15/U22: bounded modular dispatch proofs. Level 'other' because the end-to-end statement over histories is not mechanised.",
    "does_not_cover": ["interleaving of reindex batches with commits and reads", "HashColumn::reindex batch builder (written, does not finish under CBMC)", "restart or crash during growth", "reads through the mmap'd index file"],
})
PROPS["C20"].update({
    "level": "other",
    "technique": "Kani/CBMC loop-free contracts on the real key recovery (complete), bounded contract on the index walk that feeds migration, Verus contract on the per-item body of migrate's closure (fragment extracted on every run)",
    "claim": "(1) Complete: for every 32-byte hashed key, index size 16..=49 and valid address, the key that migration feeds to the destination (page number + partial key recovered by recover_key_prefix, spliced with the 26-byte key tail stored with the value) equals the source key bit for bit, and the entry's address is preserved. (2) Bounded (one 64-slot chunk, four arbitrary slots, callees by contract): iter_index_internal reports every live entry of the chunk exactly once, skipping empty slots without stopping, with the value and reference count the value table holds. (3) Verus, unbounded in rc: for an item (key, rc, value) the body of migrate's closure hands exactly rc Sets of (key, full value) to the destination, in order after everything handed over before (committed batches + pending batch), keeps the batch counter below COMMIT_SIZE, and reports the item as handled only then.",
    "level_note": "(3) is proved on a verbatim fragment of migrate (rule R8) wrapped by a hand-written function: captured variables become &mut parameters and calls leaving the unit (push onto the change set, Db::commit_raw, mem::take, Vec::clone, timer) are replaced by contracts -- every rewrite is listed in the evidence. Column selection, copy_column / move_column (directory scans, file-name matching on str), overwrite mode and the destination's own counting (C07) are not covered.",
    "exhaustive_tiers": [],
    "explanation": "U1/U4 loop-free complete proofs; U16 bounded; U25 Verus over all rc. Level 'other' because file-level steps of migrate are out of reach of both back ends.",
    "does_not_cover": ["column selection, copy_column / move_column (read_dir, str prefix matching), overwrite mode", "reference counts as stored by the destination (C07)", "iter_index_internal over more than one chunk"],
})
PROPS["C14"].update({
    "technique": "Kani/CBMC contracts on the real free-list operations, metadata fan-out, btree root bookkeeping (bounded) and index page update (complete)",
    "claim": "One-operation preservation of the structural partition: clear_slot pushes exactly the freed slot (tombstone linked to the previous head), next_free pops exactly the head and restores the previous head or extends the fill mark by one, rejects an out-of-range link without handing anything out, and marks the header dirty; removing a chain frees every part exactly once in chain order; the header record (last_removed, filled) is emitted iff either changed; an index page update touches exactly one slot; refresh_metadata / complete_plan reach every value table of a hash or btree column; a write plan unindexes an entry from the index it was found in; BTree::write_sorted_changes keeps root address and depth consistent when the root splits or collapses and releases a collapsed root node exactly once.",
    "level_note": "Bounded (48-byte entries, fill mark <= 7, <= 3-part chain; 1/3 tables; scripted outcomes of Node::change) except the index page obligations (complete). The global invariant over histories, btree reachability and node reference counts are not covered.",
    "does_not_cover": ["the global invariant over histories", "btree reachability / uniform depth below the root", "node reference counts", "index slot removed in the same plan as its value (caller property)"],
})
PROPS["C13"].update({
    "technique": "Kani/CBMC contracts on the real validate_plan functions with LogReader::read replaced by its contract (arbitrary bytes or failure), Verus proof of the mask walk for all 2^64 masks, Kani contract on the replay sequence gate of a real DbInner",
    "claim": "For every byte content of a log record and every index: ValueTable::validate_plan, IndexTable::validate_plan / skip_plan and RefCountTable::validate_plan return Ok or Err without panicking or reading outside their buffers; a value record accepted by validation is at most entry_size bytes (fits its slot) and is parsed into the same record kind the apply pass would parse; an index / ref-count record accepted by validation names a chunk inside the file and (ref-count) only slots inside the chunk; validation and skipping of index / ref-count chunk records consume exactly 8 + ENTRY_BYTES*popcount(mask) bytes and terminate, for every 64-bit mask (Verus, unbounded; Kani cross-checks popcount classes on the real LogReader type). Bounded (real DbInner without columns, one empty record, arbitrary ids): replay applies only the record numbered last_enacted+1; any other id stops replay and discards the remaining logs; a record is validated before it is applied.",
    "level_note": "Trusted: LogReader::read contract (fills the buffer or fails), crc32fast constructor stub, Log::{read_next, clear_replay_logs, end_read} by contract in U21. CRC computation/comparison (LogReader::next), file discovery and ordering (Log::open: read_dir, BufReader<File>) are not covered. enact_plan is not run (mmap / 32 KiB-buffer cost); 'apply consumes what validate consumed' is proved for the record kind and length only. Eight genuine defects met by or next to these obligations were fixed (known_findings.json).",
    "does_not_cover": ["CRC computation and comparison", "enact_plan bodies", "file discovery, ordering of log files by first record id, discarding (Log::open)"],
})
PROPS["C10"].update({
    "technique": "Kani/CBMC contracts on the real packed-node decoder and representability check, Verus contract on the real recursive release walk, syntactic side condition on claim order",
    "claim": "Reader side: unpack_node_data / unpack_node_children invert the packed-node format (data ++ LE64(child)* ++ count) for child counts 0..=3 and never panic on arbitrary input, rejecting exactly the inconsistent lengths (bounded input length). Writer side: packed_child_count accepts exactly 0..=255 (complete) and every new node's fan-out passes through it before any slot is claimed (syntactic side condition; fix 119116d). Release: write_dereference_children_plan lowers the count of every child of a removed node exactly once, recurses exactly into the children whose count reached zero, and mirrors each freed node in the free-entry list (Verus, unbounded over child lists; partial correctness).",
    "level_note": "The packing code itself (claim_tree_values / claim_node / claim_children_to_data: std HashMaps, lock guards, recursion) is out of reach of both back ends; LogWriter::insert_ref_count (mask accumulation over a std HashMap) was attempted (U26) and does not finish under CBMC; write_address_dec_ref_plan is a contract in U18; termination of the walk needs acyclic stored trees (not proved).",
    "does_not_cover": ["claim_tree_values / claim_node bodies", "node reference counts as stored (RefCountTable, LogWriter::insert_ref_count)", "multi-part nodes", "termination of the release walk"],
})
PROPS["C07"].update({
    "technique": "Verus proof of the counter transition fragment of the real change_ref (all u32 counters) and of the overlay mirroring rules; Kani/CBMC modular contracts on the per-operation dispatch, the index search order and value iteration (bounded)",
    "claim": "The counter transition applied by change_ref is, for every 32-bit counter: +1 (saturating into the lock value u32::MAX), locked stays locked, -1 while >= 2, and 'remove' (nothing written, false returned) when the count would reach zero (Verus). Reference / ref-counted Dereference are never mirrored in the commit overlay while Set is (Verus, U10). Bounded, callees by contract: write_existing_value_plan maps Set / Reference / Dereference on a present key to exactly one of replace / inc_ref / dec_ref(+remove) on the entry's table according to the column flags (3+1 tiers); a key is looked up in the current index and then in every queued old index before being treated as absent; operations of one commit are ordered by key only (stable: per-key order is the commit order); iter_values visits every value table and reports each live value with its count.",
    "level_note": "The transition is proved on a verbatim fragment of change_ref's body (rule R8) wrapped by a hand-written function: the buffer handling around it (32 KiB entry buffer, to_vec) is outside Verus' subset and exhausts CBMC. Trusted: Buf::read_rc returns the stored counter (U5.rc.roundtrip, proved by Kani under C06); ValueTable::iter_while by contract.",
    "does_not_cover": ["histories, restarts", "frame of change_ref (other entry bytes untouched)", "ValueTable::iter_while itself", "btree-indexed ref-counted columns"],
})
PROPS["C04"].update({
    "technique": "Kani/CBMC contracts on the real btree node operations and root bookkeeping (array operations complete over ORDER=8; rebalance / write_sorted_changes with child I/O replaced by contracts) + Verus contracts on the real iterator repositioning functions and merge step",
    "claim": "Node level: remove_from / shift_from preserve the order and content of the remaining separators and children and keep the node packed; number_separator / last_separator_index / need_rebalance are exact; Node::rebalance (borrow from left, borrow from right, merge; leaf and inner nodes) preserves the in-order sequence of separators and children across parent and siblings, moves exactly one separator through the parent, and releases exactly the merged-away node; the separator codec round-trips for the listed key lengths; write_sorted_changes keeps root/depth consistent on split and collapse; change sets are ordered by key only. Iterator (Verus, unbounded): when the tree moved on since the last call, next_backend re-seeks on the tree of the current record to the position the statement prescribes (after a returned key: strictly beyond it; after a seek: at it; start; end) before stepping, seek_backend / seek_backend_to_last reopen the tree and position as asked; the merge step returns whichever of the commit-overlay candidate and the backend candidate is met first in the direction of travel, lets the overlay win a tie, passes over a key removed in the overlay (recording it as the position), keeps a fetched-but-unreturned backend item for the next call, and moves last_key to the returned key or to End/Start when both sides are exhausted.",
    "level_note": "rebalance / write_sorted_changes: child I/O and Node::change replaced by contracts. Iterator units: BTree::open, BTreeIterState::{seek, next} (the node-level walk), CommitOverlay::btree_next/prev and Vec<u8>::cmp are contracts (assumed), the `&mut self` receiver is split into its fields, the merge step is a fragment in a hand-written wrapper (rule R8). Not covered: insert / split recursion (Node::change), position() key comparison, BTreeIterState walk (exit / next over the node stack), whole-tree invariant over histories.",
    "explanation": "Array operations: complete for every node size and position (ORDER is a program constant). rebalance: bounded family of (parent size, position, sibling sizes). Iterator units: Verus, all keys / values / directions.",
    "does_not_cover": ["BTreeIterState::{seek, next, exit} (walk over the node stack)", "whole-tree order and uniform depth over histories", "insert / split path (Node::change)", "key comparison in position()"],
})
PROPS["C06"].update({
    "claim": "Proved for all inputs: entry-header codec round trips, size/flag words never collide with the four markers (the record classifier is a partition), value_size arithmetic, SIZES strictly increasing and tier selection minimal and total. Bounded (entry sizes 32/33/48/64, <= 3 parts, empty values included): overwrite_chain in insert / replace / claimed mode emits exactly the on-disk format FMT for (key, rc=1, value, compressed) on the slots popped LIFO from the free list then taken from the fill mark, releases every surplus old part as a tombstone linked in front of the free list, and keeps filled/last_removed/dirty_header exact; query/size/partial_key_at/has_key_at map any FMT chain back to (value, flag, rc) and reject tombstones, continuation parts, zero counters and foreign keys. Bounded, callees by contract (3+1 tiers of arbitrary sizes): overwriting a present key replaces in place when the new value selects the same tier and otherwise releases the old entry and inserts into the selected tier, reporting the new address. Read-after-write, overwrite to any other length, and release-and-reuse follow by composition through FMT (on paper).",
    "does_not_cover": ["real part size 4096 / MiB values", "lz4 / snappy themselves", "reads through the mmap'd file (only the log view is modelled)", "composition over histories of overwrites (argued through FMT, not mechanised)"],
})

PROPS["C01"] = {
    "kani_units": ["U30", "U29", "U40", "U15", "U8d"],
    "verus_units": ["overlay_publish", "indexed_write_plan", "lookup_chain"],
    "level": "other",
    "technique": "Kani/CBMC modular contracts on the real read path (DbInner::get / get_size, HashColumn::get) and write dispatch, Verus contracts on commit-overlay publication and the collision-chain lookup; one contract per pipeline stage, composed on paper",
    "claim": "Per-stage contracts of the hash-column map, each on the real code with its callees replaced by contracts: (queued) a commit publishes exactly the in-order fold of its operations into the commit overlay, last operation on a key wins (Verus, unbounded); (read) DbInner::get / get_size look the hashed key up in the commit overlay first -- a queued value wins, a queued removal hides whatever the tables hold, the column is not consulted -- and otherwise return what the column holds, get_size being the length of exactly the value get returns (Kani, bounded: one column, scripted overlay and column states); (column read) HashColumn::get searches the current index and then every queued older index in order, first hit wins, absent only after all were searched; within an index the collision chain never stops at a foreign key and never skips a match (Verus, unbounded); (apply) a write plan replaces / inserts / removes exactly the entry of the key in the index it lives in (Kani, bounded). The statement's quantification over pipeline progress (queued, logged, synced, applied, reclaimed), reopen and arbitrary histories is a composition over these stages and is not mechanised.",
    "level_note": "Every unit replaces its callees by contracts (listed in the evidence); the hand-over between stages (clean_overlay removing an entry from the commit overlay only once the log overlay holds it, log overlay to file) is concurrency / history and is not covered. Value bytes through the table layer are decided (boundedly) under C06.",
    "trusted_base": TB,
    "explanation": "Modular contracts per stage; bounded where a unit constructs a column or database value. Level 'other': the end-to-end statement over histories and schedules is not mechanised.",
    "does_not_cover": ["hand-over between pipeline stages (clean_overlay, log overlay retirement)", "clean close and reopen", "keys of any length (hash_key / blake2 is a contract)", "btree columns (C04)"],
}

PROPS["C12"] = {
    "kani_units": ["U31", "U32"],
    "verus_units": [],
    "level": "other",
    "technique": "Kani/CBMC modular ordering contract on the real log-reclaim step (DbInner::clean_logs / clean_all_logs) with the I/O callees replaced by recorders",
    "claim": "Only the second half of the statement's 'equivalently' clause, and only for one step function: DbInner::clean_logs and clean_all_logs flush every column's tables before Log::clean_logs may truncate or recycle any log file (with sync_data; without it the newest KEEP_LOGS logs are kept instead), reclaim exactly the dirty logs beyond the kept ones, and reclaim nothing when a flush fails. Power loss itself (which pages reach the disk), the sync of a log file before its records are applied, and log reuse across restarts are not decided.",
    "level_note": "Column::flush, Log::num_dirty_logs and Log::clean_logs are contracts (recorders). Log::flush_one (sync before the file becomes readable) holds a BufWriter<File> and is not under contract; the durable-image semantics of the property are outside this family (no file-system model).",
    "trusted_base": TB,
    "explanation": "One bounded modular harness family on a real DbInner value; level 'other' because only one ordering step of the property is decided.",
    "does_not_cover": ["power-loss semantics (arbitrary subset of unsynced pages)", "Log::flush_one: log synced before its records can be applied", "Log::clean_logs body (rewind, set_len, sync_all, pool)", "log reuse across restart / recovery"],
}
PROPS["C03"] = {
    "kani_units": ["U33"],
    "verus_units": [],
    "level": "other",
    "technique": "Kani/CBMC modular contract on the real shutdown drain (DbInner::kill_logs) with the pipeline stage functions replaced by contracts over ghost stage counters",
    "claim": "Only the clean-shutdown half, and only the drain order: whatever number of accepted commits sits in each stage when the handle is dropped (queued, logged but unflushed, flushed but unapplied; up to 2 each), DbInner::kill_logs runs the stage functions in an order that applies every one of them before data is flushed and logs are reclaimed, and removes log files only after that. That Db::drop_inner signals shutdown and joins every worker thread it holds before it calls kill_logs, and releases the directory lock only afterwards, is a text dominance check on the straight-line body of that function (an assumption that is checked, not a proof; that a joined thread touches nothing afterwards is Rust's own guarantee). What the stage functions do beyond the units named below, and survival of synced records across a crash, are not decided.",
    "level_note": "process_commits / flush_logs / enact_logs / clean_all_logs / Log::kill_logs are contracts over ghost counters (stated in the evidence). Thread joins in Db::drop_inner, the background-error path (only reclaims logs) and crash recovery are not covered.",
    "trusted_base": TB,
    "explanation": "Bounded modular harness on a real DbInner value; level 'other' because the stage functions are assumed contracts and crash survival is out of reach.",
    "does_not_cover": ["that the workers react to the shutdown flag (termination of the joins)", "the stage functions themselves (process_commits, flush_logs, enact_logs)", "crash survival of synced records", "reopen replay (C13 covers the sequence gate only)"],
}
PROPS["C12"].update({
    "technique": "Kani/CBMC modular ordering contracts on the real log hand-over step (Log::flush_one) and log-reclaim step (DbInner::clean_logs / clean_all_logs) with the I/O callees replaced by recorders",
    "claim": "The two ordering steps of the statement's 'equivalently' clause, one function each: (1) Log::flush_one syncs the appending log file (with sync_wal) before the file enters the read queue, i.e. before any of its records can be applied to tables, and leaves a too-small log appending (bounded: successful sync only); (2) DbInner::clean_logs and clean_all_logs flush every column's tables before Log::clean_logs may truncate or recycle any log file (with sync_data; without it the newest KEEP_LOGS logs are kept instead), reclaim exactly the dirty logs beyond the kept ones, and reclaim nothing when a flush fails. Power loss itself (which unsynced pages reach the disk) and the composition of the steps over a history are not decided.",
    "level_note": "std::fs::File::sync_data, Column::flush, Log::num_dirty_logs and Log::clean_logs are contracts (recorders). The failing-sync path of flush_one drops a File (close(2) is not modelled by Kani) and is not exercised. That records are applied only from the read queue is the structure of Log::read_next (not under contract). The durable-image semantics of the property are outside this family (no file-system model).",
    "does_not_cover": ["power-loss semantics (arbitrary subset of unsynced pages)", "Log::flush_one when the sync fails", "Log::clean_logs body (rewind, set_len, sync_all, pool)", "Log::read_next (records are applied only from synced files)", "log reuse across restart / recovery"],
})

PROPS["C16"] = {
    "kani_units": ["U34"],
    "verus_units": [],
    "level": "other",
    "technique": "Kani/CBMC contracts on the real background-error functions of DbInner (store_err, the gate of commit_raw, the error path of kill_logs), stage functions replaced by contracts",
    "claim": "Only the 'later commits are refused with a background-error' and 'the writer stops' clauses, function by function: store_err records the first failure of a background worker, keeps it when further failures arrive, and raises the shutdown flag that stops every worker; commit_raw called in that state returns the background error without taking a commit id, queueing or publishing anything; kill_logs in that state applies no further record and logs no queued commit, and keeps the log files for recovery. Which file operations can fail, that every failure reaches store_err, that reads keep working and that reopening yields a prefix are not decided.",
    "level_note": "Bounded harnesses on a real DbInner value with one column; commit_raw is exercised with an empty transaction only; the stage functions of kill_logs are contracts over ghost counters. Fault injection over file operations has no counterpart in this family (no I/O model).",
    "trusted_base": TB,
    "explanation": "Three bounded modular harnesses; level 'other' because only the error-state gate is decided, not the fault behaviour of the I/O paths.",
    "does_not_cover": ["which operations fail and that each failure is propagated to store_err (error paths through `?`)", "reads after a failure", "state after reopen (prefix of commits)", "no panic on I/O errors"],
}
PROPS["C08"]["kani_units"] = ["U34"]

PROPS["C07"]["kani_units"] = ["U8d", "U40", "U17", "U15", "U24"]
PROPS["C17"] = {
    "kani_units": ["U35"],
    "verus_units": [],
    "level": "other",
    "technique": "Kani/CBMC contract on the real metadata validation (Options::load_and_validate_metadata) with the file reader/writer replaced by contracts",
    "claim": "Only the option-check clauses, at the function that implements them: for every combination of the eight per-column flags and up to two columns, load_and_validate_metadata accepts stored metadata exactly when the column count and every flag of every column agree with the requested options, reports a count mismatch and a flag mismatch as configuration errors, never rewrites the metadata of an existing database whatever the outcome, reports a missing database without creating anything unless creation was requested, and on creation writes metadata describing exactly the requested columns once. That no other database file is touched before this check, the textual round trip of the metadata file, and add / drop / reset / clear column are not decided.",
    "level_note": "Options::load_metadata (BufReader<File>, str parsing) and write_metadata (format!, fs::write) are contracts; DbInner::open creates the directory / lock file before this function runs (not under contract). Column administration functions work on directory listings and whole files and are out of reach.",
    "trusted_base": TB,
    "explanation": "Bounded in the number of columns (<= 2), complete over all flag combinations for those; level 'other' because only one function of the property is decided.",
    "does_not_cover": ["metadata file round trip (as_string / from_string)", "files touched by DbInner::open before validation (directory, lock file)", "add_column, drop_last_column, reset_column, clear_column"],
}
PROPS["C07"]["claim"] = PROPS["C07"]["claim"].replace("iter_values visits every value table and reports each live value with its count.", "iter_values visits every value table (bounded) and ValueTable::iter_while reports, for any fill mark, exactly the live values of slots 1..written in slot order with their counts, passes over slots that are not value heads, stops only on the client's request or a read failure, and never swallows a read failure (Verus, unbounded).")
PROPS["C07"]["does_not_cover"] = ["histories, restarts", "frame of change_ref (other entry bytes untouched)", "the chain reader under iter_while (bounded under C06)", "btree-indexed ref-counted columns"]
PROPS["C04"]["claim"] = "Point reads: DbInner::get / get_size on a btree column consult the commit overlay first (a queued value wins, a queued removal hides the stored value) and otherwise return what the tree holds, get_size being the length of what get returns (Kani, bounded: overlay lookup and BTreeTable::get by contract). " + PROPS["C04"]["claim"]
PROPS["C10"]["claim"] = PROPS["C10"]["claim"].replace("Writer side:", "Node reads (bounded: one node shape; overlay lookup and HashColumn::get_value by contract): DbInner::get_node / get_node_children return the node queued in the commit overlay at that address if there is one and otherwise the node the column holds, unpacked into exactly the stored data and child order, and report absent exactly when neither has it. Writer side:")
PROPS["C04"]["claim"] = PROPS["C04"]["claim"].replace("number_separator / last_separator_index / need_rebalance are exact;", "number_separator / last_separator_index / need_rebalance are exact; position() returns, for every node content (keys of 1-2 arbitrary bytes, not assumed sorted) and every search key, the first separator that is not smaller than the key, reports a match exactly when that separator equals the key, and every separator before it is strictly smaller (complete for the node sizes 0..=8);")
PROPS["C04"]["does_not_cover"] = ["BTreeIterState::{seek, next, exit} (walk over the node stack)", "whole-tree order and uniform depth over histories", "insert / split path (Node::change)", "keys longer than 2 bytes in position() (same comparison, slice cmp)"]
PROPS["C07"]["claim"] = PROPS["C07"]["claim"].replace("Bounded, callees by contract: write_existing_value_plan", "Bounded, callees by contract: HashColumn::write_plan applies an operation to the entry of an indexed key where it was found, stores and indexes a Set of a new key, and ignores (writes nothing for) a Reference or Dereference of an absent key; write_existing_value_plan")
PROPS["C04"]["syntactic"] = ["btree_commit_sorts_stably"]
PROPS["C04"]["claim"] = PROPS["C04"]["claim"].replace("change sets are ordered by key only.", "change sets are ordered by key only; BTreeChangeSet::write_plan hands every operation of the commit to the tree in key order, operations on one key in commit order (two operations; that the sort is a stable one is a text-level side condition), and writes the new root / depth to the stored header in the same plan whenever they moved.")
PROPS["C10"]["claim"] = PROPS["C10"]["claim"].replace("Release:", "Applying a queued transaction (Verus, unbounded): IndexedChangeSet::write_plan writes every key operation in commit order and then every node change in order (new node bytes at their claimed addresses, count raised for every reused node), lowers the count of the root of a dereferenced tree and releases its children exactly when that count was 1 (the last reference) and never otherwise. Release:")
PROPS["C01"]["claim"] = PROPS["C01"]["claim"].replace("(apply) a write plan", "(apply) IndexedChangeSet::write_plan hands the key operations of a transaction to the column one by one in commit order (Verus, unbounded); a write plan")

# ---------------------------------------------------------------- U43 / U44 (Verus; std HashMap entry API by a prophecy-typed contract)
HASHMAP_ASSUME = "std::collections::HashMap replaced by its contract (contracts/verus/std_hashmap.inc: finite map; insert / remove / get; the entry API hands out a slot whose final content is what the map holds for that key afterwards)"
UNIT_META["log_writer"] = {"functions": ["log::LogWriter::{insert_index,insert_value,insert_ref_count}"],
                           "assumes": [HASHMAP_ASSUME, "`#[derive(Default)]` of the per-table overlay structs yields an empty map", "slot numbers handed to insert_index / insert_ref_count are < 64 (precondition; U3 proves it for the index callers)"]}
UNIT_META["overlay_retire"] = {"functions": ["db::IndexedChangeSet::clean_overlay", "log::Log::end_read (the three retirement loops; fragment)"],
                               "assumes": [HASHMAP_ASSUME, "the overlay write-lock guard of Log::end_read becomes the &mut parameter of a hand-written wrapper (rule R8); the record-id bump before and the memory-reclaim loops after the fragment are outside it",
                                           "IndexTableId / ValueTableId / RefCountTableId::log_index are uninterpreted slot numbers here (their injectivity per live table is U1 / U5)",
                                           "every `if` without `else` gets an explicit empty else (rule R9, the identity): the installed Verus otherwise resolves a conditionally moved entry on both paths"]}
for _p in ("C10", "C14", "C09", "C06", "C01"):
    PROPS[_p]["verus_units"] = list(PROPS[_p].get("verus_units", [])) + ["log_writer"]
PROPS["C01"]["verus_units"] = PROPS["C01"]["verus_units"] + ["overlay_retire"]
PROPS["C01"]["claim"] = PROPS["C01"]["claim"].replace("The statement's quantification over pipeline progress", "(hand-over, Verus, unbounded) IndexedChangeSet::clean_overlay and the retirement loops of Log::end_read only ever remove overlay entries that the finishing commit / enacted record names AND that still carry its id, and alter nothing else: an entry re-written by a later commit or record stays, so a read never falls through to an older stored value; (record assembly, Verus) LogWriter::insert_value / insert_index / insert_ref_count store exactly what they are handed, tagged with the record id, a second write to a chunk keeps the slots of the first in the modified-slot mask, nothing else in the record changes. The statement's quantification over pipeline progress")
PROPS["C01"]["does_not_cover"] = ["that the log overlay already holds the record when the commit overlay entry leaves (order of end_record and clean_overlay inside process_commits)", "Log::end_record (hash-map iteration by value) and the reader side of LogWriter (closures)", "clean close and reopen", "keys of any length (hash_key / blake2 is a contract)", "btree columns (C04)"]
PROPS["C01"]["level_note"] = PROPS["C01"]["level_note"].replace("the hand-over between stages (clean_overlay removing an entry from the commit overlay only once the log overlay holds it, log overlay to file) is concurrency / history and is not covered", "of the hand-over between stages the removal rule (only entries still tagged with the finishing id leave) is proved; that the next stage already holds the data at that moment is an ordering inside process_commits / enact_logs and is not covered")
PROPS["C10"]["claim"] = PROPS["C10"]["claim"] + " Stored node counts reach the log (Verus, unbounded): LogWriter::insert_ref_count records the chunk it is handed under the record id and ORs the slot into the modified-slot mask already held for that chunk, so two count changes in one chunk within one commit are both written."
PROPS["C10"]["does_not_cover"] = [x for x in PROPS["C10"]["does_not_cover"] if "insert_ref_count" not in x]
PROPS["C14"]["claim"] = PROPS["C14"]["claim"] + " The record under assembly (Verus, unbounded): insert_index / insert_ref_count / insert_value change exactly the named chunk or slot of the record and accumulate the modified-slot mask."
PROPS["C09"]["level_note"] = PROPS["C09"]["level_note"].replace("Trusted: LogWriter::insert_index contract (recorder);", "LogWriter::insert_index's contract (the recorder of U3) is proved by Verus unit log_writer against a contract of std HashMap;")

# ---------------------------------------------------------------- U45 (Verus fragment of process_commits)
UNIT_META["commit_apply"] = {"functions": ["db::DbInner::process_commits (apply step: from the opening of the log record to the retirement of the commit from the commit overlay; fragment)"],
                             "assumes": ["the fragment is wrapped by a hand-written method (rule R8); the write guard of `self.commit_overlay` becomes a &mut parameter; the two statements updating the logged-bytes counter behind `log_queue_wait` are dropped (listed rewrites)",
                                         "IndexedChangeSet / BTreeChangeSet::{write_plan, clean_overlay}, Column::complete_plan, Log::{begin_record, end_record}, LogWriter::{record_id, drain} are contracts (opaque effects on the record; clean_overlay may change the overlay arbitrarily and must be called with the id of the commit the change set belongs to)",
                                         "vstd has no HashMap::iter_mut: the two loops over btree change sets iterate by shared reference and the btree callees take `&self` (listed rewrites); their effect on the change set itself is outside the unit",
                                         "every column id named by the commit indexes self.columns and the overlay vector (precondition)"]}
PROPS["C16"]["verus_units"] = list(PROPS["C16"].get("verus_units", [])) + ["commit_apply"]
PROPS["C01"]["verus_units"] = PROPS["C01"]["verus_units"] + ["commit_apply"]
PROPS["C16"]["claim"] = PROPS["C16"]["claim"] + " Reads after a failed step (Verus, unbounded over the change sets): the apply step of process_commits leaves the commit overlay exactly as it was whenever planning, completing the plan or appending the record to the log fails, so reads keep returning the accepted transaction; the commit's entries are retired only after Log::end_record returned Ok and only under the commit's own id."
PROPS["C01"]["claim"] = PROPS["C01"]["claim"].replace("(record assembly, Verus)", "the commit's entries leave the commit overlay only after Log::end_record returned Ok -- the log overlay then holds the record -- and under the commit's own id (Verus, fragment of process_commits); (record assembly, Verus)")
PROPS["C01"]["does_not_cover"] = [x for x in PROPS["C01"]["does_not_cover"] if "order of end_record and clean_overlay" not in x] + ["Log::end_record publishing the record into the log overlay (hash-map iteration by value)"]
PROPS["C16"]["technique"] = PROPS["C16"]["technique"] + "; Verus contract on the apply step of process_commits (fragment extracted on every run)"
PROPS["C16"]["does_not_cover"] = ["which operations fail and that each failure is propagated to store_err (error paths through `?`)", "reads after a failure other than of the apply step of process_commits", "state after reopen (prefix of commits)", "no panic on I/O errors"]

# ---------------------------------------------------------------- U46 / U47 (Kani on a real Log)
UNIT_META["U46"] = {"functions": ["log::Log::read_next"], "assumes": ["LogReader::next (reading and checksumming a record header from the file) replaced by its contract with a scripted outcome", "the active log file is a handle never used for I/O"]}
UNIT_META["U47"] = {"functions": ["log::Log::kill_logs"], "assumes": ["Log::drop_log (remove_file) replaced by a recorder", "closing a File (close(2), foreign) replaced by a recorder"]}
PROPS["C16"]["kani_units"] = list(PROPS["C16"]["kani_units"]) + ["U46"]
PROPS["C03"]["kani_units"] = list(PROPS["C03"]["kani_units"]) + ["U47"]
PROPS["C13"]["kani_units"] = list(PROPS["C13"]["kani_units"]) + ["U46"]
PROPS["C16"]["claim"] = PROPS["C16"]["claim"] + " Log::read_next (Kani, bounded; LogReader::next by contract) reports every failure to read a record header except a clean end of file, and never hands a log file that failed to read to the cleanup stage (which would truncate records that were not applied)."
PROPS["C03"]["claim"] = PROPS["C03"]["claim"] + " Log::kill_logs (Kani, bounded) deletes no log file that is still waiting to be applied: the read queue is left on disk for replay at the next open."

# ---------------------------------------------------------------- U48 / U49
M_COLUMN.harnesses.append(H("u48_flush_covers_queued_index_tables", "U48", kind="bounded", shape="HashColumn::flush on a column with two older index tables queued for migration", bound="two queued index tables, no value tables; the per-table flush (msync) is a recorder"))
for _n in (32, 33, 40):
    M_COLUMN.harnesses.append(H("u49_hash_key_uniform_len%d" % _n, "U49", kind="bounded", shape="hash_key on a uniform column, key of %d arbitrary bytes, arbitrary salt, database versions 4..=current" % _n, bound="key lengths 32, 33, 40"))
UNIT_META["U48"] = {"functions": ["column::HashColumn::flush"], "assumes": ["IndexTable::flush (msync of the mapping) replaced by a recorder"]}
UNIT_META["U49"] = {"functions": ["column::hash_key (uniform-key branch, siphash 1-3 by siphasher: real code)"], "assumes": ["the zero-salt short cut compiled in by the test / instrumentation features is not part of the build Kani verifies"]}
PROPS["C12"]["kani_units"] = list(PROPS["C12"]["kani_units"]) + ["U48"]
PROPS["C01"]["kani_units"] = list(PROPS["C01"]["kani_units"]) + ["U49", "U22"]
PROPS["C12"]["claim"] = PROPS["C12"]["claim"] + " HashColumn::flush (Kani, bounded) flushes the current index and every older index table still queued for migration (records applied during a growth write to them too)."
PROPS["C01"]["claim"] = PROPS["C01"]["claim"] + " Keys (Kani, bounded lengths 32 / 33 / 40, contents and salt arbitrary): hash_key on a uniform-key column accepts every key of 32 bytes or more without panicking, keeps key bytes 16..32 and is a function of key and salt."
PROPS["C01"]["does_not_cover"] = [x for x in PROPS["C01"]["does_not_cover"] if "hash_key" not in x] + ["hash_key for hashed (blake2) keys: a contract"]

# ---------------------------------------------------------------- U50 (Verus: column administration keeps salt and version)
UNIT_META["column_admin"] = {"functions": ["db::DbInner::open (fragment: the options recorded in the handle)", "db::Db::{add_column,drop_last_column,reset_column}"],
                             "assumes": ["Db::precheck_column_operation (Db::open + drop: replay and removal of pending logs) is a contract returning what the handle recorded; that the handle records the stored salt is the fragment obligation U50.open",
                                         "Options::write_metadata_with_version (format! / fs::write) is a contract requiring the stored salt and version; Options::write_metadata (which always writes the current version) must not be reachable",
                                         "Db::remove_column_files / Column::drop_files (directory scan, file-name prefixes on str) are contracts: which files are deleted is not covered",
                                         "Options is declared in the template with the three fields used (path, columns, salt); std::path::PathBuf is opaque"]}
PROPS["C17"]["verus_units"] = list(PROPS["C17"].get("verus_units", [])) + ["column_admin"]
PROPS["C17"]["technique"] = PROPS["C17"]["technique"] + "; Verus contracts on the real column-administration calls (metadata rewritten with the stored salt and version) and on the options recorded by DbInner::open (fragment)"
PROPS["C17"]["claim"] = PROPS["C17"]["claim"] + " Column administration (Verus, unbounded over the column list; file operations by contract): add_column, drop_last_column and reset_column first open the database (replaying pending logs), rewrite the metadata with exactly the salt and the version the database has -- never with the requested salt or the current version -- and change the option list only at the column concerned; the handle DbInner::open returns records the stored salt."
PROPS["C17"]["does_not_cover"] = ["metadata file round trip (as_string / from_string)", "files touched by DbInner::open before validation (directory, lock file)", "which files Column::drop_files deletes (file-name prefixes on str)", "migration::clear_column", "content of the other columns' files"]

# ---------------------------------------------------------------- U51 (alternative group: who makes sure the log bytes are in the file at sync time)
M_LOG.harnesses.append(H("u51_flush_one_syncs_buffered_bytes", "U51", kind="bounded", alt="wal_bytes_reach_file_before_sync", shape="Log::flush_one on a log whose writer still buffers five bytes of a record", bound="one log file, five buffered bytes; File::write / sync_data / close by contract"))
M_LOG.harnesses.append(H("u51_flush_to_file_leaves_nothing_buffered", "U51", kind="bounded", alt="wal_bytes_reach_file_before_sync", shape="LogChange::flush_to_file of an empty record through a 64-byte BufWriter", bound="empty record (14 bytes); File::write by contract"))
UNIT_META["U51"] = {"functions": ["log::Log::flush_one", "log::LogChange::flush_to_file"], "assumes": ["<File as Write>::write, File::sync_data and close(2) replaced by contracts (byte counters)", "alternative group: a synced log file misses record bytes only if flush_to_file leaves bytes buffered AND flush_one syncs before unwrapping the writer; either one alone keeps the property, so a violation is reported only when both harnesses fail"]}
PROPS["C12"]["kani_units"] = list(PROPS["C12"]["kani_units"]) + ["U51"]
PROPS["C03"]["kani_units"] = list(PROPS["C03"]["kani_units"]) + ["U51"]
PROPS["C12"]["claim"] = PROPS["C12"]["claim"] + " Every byte of a record has reached the log file when the file is synced (Kani, bounded; std BufWriter is the real code): flush_to_file leaves nothing buffered after a record, or else flush_one unwraps (flushes) the writer before fdatasync -- reported as violated only if neither holds."

# ---------------------------------------------------------------- U52 + enact fragments of the chunk tables (C13: apply parses as validate does)
UNIT_META["value_record_walk"] = {"functions": ["table::ValueTable::validate_plan", "table::ValueTable::enact_plan (from the record-kind dispatch to the end; fragment)"],
                                  "assumes": ["LogReader::read and the slice forms `log.read(&mut buf[a..b])` / `file.write_at(&buf[a..b], off)` become contracts that require the slice to be in range of the 32 KiB entry buffer (shape rewrites, sub-expressions verbatim)",
                                              "the entry codec (tombstone / multipart markers, size word) is uninterpreted: decided on the real code by Kani (U5)",
                                              "the growth loop in front of the enact fragment (TableFile::grow until capacity > index) is outside the fragment; its result (slot index lies inside the file) is a precondition",
                                              "TableFile::write_at, AtomicU64::store, Header are stand-ins declared in the template"]}
UNIT_META["log_mask_walk"]["functions"] = UNIT_META["log_mask_walk"]["functions"] + ["index::IndexTable::enact_plan (mask walk; fragment)", "ref_count::RefCountTable::enact_plan (mask walk; fragment)"]
UNIT_META["log_mask_walk"]["assumes"] = UNIT_META["log_mask_walk"]["assumes"] + ["enact fragments: the CHUNK_LEN-byte window of the memory map (raw pointer arithmetic in the real function) is a parameter of the wrapper; `log.read(try_io!(Ok(&mut chunk[a..b])))` becomes a contract requiring a <= b <= chunk length (shape rewrite, sub-expressions verbatim)"]
PROPS["C13"]["verus_units"] = list(PROPS["C13"]["verus_units"]) + ["value_record_walk"]
PROPS["C13"]["claim"] = PROPS["C13"]["claim"] + " Apply parses as validate does (Verus, unbounded): for every record kind of a value table (header, tombstone, multipart part, sized entry) ValueTable::enact_plan consumes exactly the bytes validate_plan consumed, takes only in-range slices of the entry buffer and writes at most one slot -- given that validation accepted the record; IndexTable / RefCountTable::enact_plan consume 8 + ENTRY_BYTES*popcount(mask) bytes like their validation and skip functions, terminate, and write every slot inside the 512-byte chunk (for the ref-count table given the validated mask)."
PROPS["C13"]["level_note"] = PROPS["C13"]["level_note"].replace("enact_plan is not run (mmap / 32 KiB-buffer cost); 'apply parses as validate does' is argued from the identical code shape, not proved.", "The parsing part of the three enact_plan functions is proved on verbatim fragments by Verus; locating / growing / mapping the file in front of those fragments (mmap, raw pointers) is not covered.")
PROPS["C13"]["does_not_cover"] = ["CRC and record sequencing", "the file-locating part of enact_plan (open / grow / mmap, pointer arithmetic)", "file discovery / ordering / discarding in Log::open"]

# ---------------------------------------------------------------- U53
M_COLUMN.harnesses.append(H("u53_validate_rejects_unrepresentable_index_size", "U53", kind="proof", shape="HashColumn::validate_plan on an index record naming any index size >= 64 - MIN_INDEX_BITS (all 208 values), any chunk number"))
UNIT_META["U53"] = {"functions": ["column::HashColumn::validate_plan (index-record branch)"], "assumes": ["HashColumn::trigger_reindex replaced by a contract that must not be reached", "LogReader::read by contract"]}
PROPS["C13"]["kani_units"] = list(PROPS["C13"]["kani_units"]) + ["U53"]
PROPS["C13"]["claim"] = PROPS["C13"]["claim"] + " HashColumn::validate_plan rejects an index record whose table id names an index size the log overlay has no slot for (complete over all such sizes) without starting an index growth."

# ---------------------------------------------------------------- U54
for _n in (0, 1, 2):
    M_COLUMN.harnesses.append(H("u54_moved_value_indexed_need%d" % _n, "U54", kind="bounded", shape="HashColumn::write_plan of an overwrite that moves the value; the key is found in the current or in a queued index; the current index answers 'chunk full' %d time(s)" % _n, bound="at most two consecutive 'chunk full' answers; index / value operations by contract"))
UNIT_META["U54"] = {"functions": ["column::HashColumn::{write_plan,write_plan_existing}"], "assumes": ["HashColumn::search_all_indexes (U15c), IndexTable::write_insert_plan / write_remove_plan (U3), Column::write_existing_value_plan (U8d), HashColumn::trigger_reindex (U22) replaced by contracts (recorders)"]}
for _p in ("C14", "C09", "C01", "C06"):
    PROPS[_p]["kani_units"] = list(PROPS[_p]["kani_units"]) + ["U54"]
PROPS["C14"]["claim"] = PROPS["C14"]["claim"] + " An overwrite that moves a value to another slot leaves the key indexed at the new address even when the chunk of the current index is full: the index grows until an insert is accepted (Kani, bounded: at most two 'chunk full' answers)."

# ---------------------------------------------------------------- U16b (known finding: migration misses keys that live in a queued index)
M_COLUMN.harnesses.append(H("u16b_index_walk_reaches_queued_index_tables", "U16", kind="bounded", shape="HashColumn::iter_index_internal on a column with two older index tables queued for migration; last chunk of the current index", bound="one chunk of the current index; IndexTable::entries by contract (empty pages)"))

# ---------------------------------------------------------------- U55 (Verus: which log files Log::open queues for replay, in which order)
UNIT_META["log_open"] = {"functions": ["log::Log::open (fragment: the scan step for one file named log<N>)", "log::Log::open (fragment: ordering of the replay queue and first id for new log files)"],
                         "assumes": ["the directory scan itself (read_dir, file-name parsing on str) is outside the fragments; its loop invariant (every queued file id <= max_log_id) is proved for one step and assumed across steps",
                                     "Log::open_log_file (reads the first record id of a file), Log::log_path and std::fs::remove_file are contracts over an uninterpreted file system",
                                     "`<[T]>::sort_by_key(|pattern| key)` is a contract: the closure becomes the key projection of the contract by a shape rewrite that keeps its pattern and key expression verbatim; VecDeque::is_empty by assume_specification"]}
for _p in ("C13", "C03"):
    PROPS[_p]["verus_units"] = list(PROPS[_p].get("verus_units", [])) + ["log_open"]
PROPS["C13"]["claim"] = PROPS["C13"]["claim"] + " Which files are replayed, in which order (Verus, unbounded over the number of log files; file system by contract): Log::open queues a log file that starts with a record under the id of that record and deletes one that does not; the replay queue is ordered by the first record id of each file -- not by file id, which says nothing about age once files are recycled --, ordering loses no file, and new log files get ids above every file waiting for replay."
PROPS["C03"]["claim"] = PROPS["C03"]["claim"] + " Reopen (Verus, unbounded over the number of log files): Log::open orders the files to replay by the first record id each holds, so that the sequence gate of enact_logs (which discards everything after the first out-of-sequence record) sees the synced records in commit order."
PROPS["C13"]["does_not_cover"] = [x for x in PROPS["C13"]["does_not_cover"] if "Log::open" not in x] + ["the directory scan of Log::open (read_dir, parsing log<N> names) and the first-record-id read of open_log_file"]
PROPS["C03"]["does_not_cover"] = [x.replace("reopen replay (C13 covers the sequence gate only)", "reopen replay beyond the replay-queue order and the sequence gate (C13)") for x in PROPS["C03"]["does_not_cover"]]
PROPS["C13"]["technique"] = PROPS["C13"]["technique"] + "; Verus contract on the replay-queue construction of Log::open (fragments extracted on every run)"
if "Verus" not in PROPS["C03"]["technique"]:
    PROPS["C03"]["technique"] = PROPS["C03"]["technique"] + "; Verus contract on the replay-queue construction of Log::open (fragments extracted on every run)"

# ---------------------------------------------------------------- U56 (Verus: lookups over the current index and EVERY queued index table)
UNIT_META["index_queue_search"] = {"functions": ["column::HashColumn::search_index", "column::HashColumn::search_all_indexes", "column::HashColumn::get (fragment: from the lookup in the current index to the end)"],
                                   "assumes": ["IndexTable::get replaced by its contract (U2 lifted through the log view, as in unit lookup_chain)", "ValueTable::has_key_at replaced by its contract (stored key tail of a live entry equals the key's; checked boundedly by Kani, U6-R)",
                                               "HashColumn::get_in_index is a function of the state here (proved against its own callees by unit lookup_chain)", "the lock guards of HashColumn::get (tables.read(), reindex.read()) become parameters of the wrapper; `for entry in &queue` is written `for entry in it: queue.iter()` (listed rewrites)",
                                               "every value-table vector holds 256 tables (one per size tier), index sizes 16..=49"]}
for _p in ("C01", "C09", "C14", "C07"):
    PROPS[_p]["verus_units"] = list(PROPS[_p].get("verus_units", [])) + ["index_queue_search"]
_U56 = " Lookups during index growth (Verus, unbounded over the number of older index tables queued for migration): HashColumn::search_index returns only a slot whose value entry carries the key and passes over no such slot; search_all_indexes and the read path of HashColumn::get report a key absent only after the current index AND every queued index table were searched, and what they return comes from one of those tables."
for _p in ("C01", "C09"):
    PROPS[_p]["claim"] = PROPS[_p]["claim"] + _U56
PROPS["C14"]["claim"] = PROPS["C14"]["claim"] + " A write finds the existing entry of its key in whichever index table holds it (Verus, unbounded over the queued index tables: search_all_indexes), so an overwrite never leaves a second, orphaned entry behind."
PROPS["C07"]["claim"] = PROPS["C07"]["claim"] + " The entry whose count an operation changes is found in whichever index table holds the key (Verus, unbounded over the queued index tables: search_all_indexes)."

# ---------------------------------------------------------------- U59 (Verus: batch builder of an index growth; replaces the unregistered Kani attempt U20)
UNIT_META["reindex_batch"] = {"functions": ["column::HashColumn::reindex (fragment: index branch, from the progress read to the end of the `if progress != total` block)"],
                              "assumes": ["IndexTable::entries (page of the old table: log overlay first, else the file), recover_key_prefix (Kani: U4) and Entry::address (U1) replaced by contracts over uninterpreted functions",
                                          "the progress counter (AtomicU64 behind a read guard) is a plain field of the wrapper's &mut parameter; `for entry in entries.iter()` is written as a while loop over the same array in the same order (listed rewrite; Verus has no `continue` in for-loops)",
                                          "precondition: the stored progress value does not exceed the table (established by U22 / this unit's own postcondition across batches)"]}
UNIT_META["reindex_batch_rc"] = {"functions": ["column::HashColumn::reindex (fragment: ref-count branch)"],
                                 "assumes": ["RefCountTable::entries and the ref-count entry accessors replaced by contracts over uninterpreted functions", "same rewrites as unit reindex_batch"]}
for _p in ("C09", "C14"):
    PROPS[_p]["verus_units"] = list(PROPS[_p].get("verus_units", [])) + ["reindex_batch"]
PROPS["C10"]["verus_units"] = list(PROPS["C10"].get("verus_units", [])) + ["reindex_batch_rc"]
PROPS["C09"]["claim"] = PROPS["C09"]["claim"] + " Growth batches (Verus, unbounded: any progress value, any chunk contents): a batch built by HashColumn::reindex holds exactly the live entries of the chunks the progress counter moves past, each under the key prefix recovered from its own chunk and with its own address; the counter only moves forward and never beyond the old table; the old table is reported droppable only when the counter has reached its end."
PROPS["C09"]["does_not_cover"] = [x for x in PROPS["C09"]["does_not_cover"] if "reindex` batch builder" not in x and "HashColumn::reindex batch builder" not in x]
PROPS["C14"]["claim"] = PROPS["C14"]["claim"] + " No index entry is dropped by a growth batch (Verus, unbounded: HashColumn::reindex, see C09)."
PROPS["C10"]["claim"] = PROPS["C10"]["claim"] + " Stored node counts survive a growth of the ref-count table (Verus, unbounded): the ref-count branch of HashColumn::reindex plans exactly the live (address, count) pairs of the chunks its progress counter moves past and reports the old table droppable only at the end."

# ---------------------------------------------------------------- U60 (Verus: writer side of a multitree commit -- preparation and packing of new nodes)
UNIT_META["tree_claim"] = {"functions": ["column::HashColumn::{prepare_node,prepare_children,claim_node,claim_children_to_data}", "column::packed_node_size"],
                           "assumes": ["tier selection `tables.tables.iter().position(|t| ..).unwrap_or_else(..)` (iterator adapter with closures) becomes the contract tier_for: a function of the tables and the packed size (shape rewrite; the size expression is kept verbatim, so preparation and packing are compared on the size each of them computes)",
                                       "packed_child_count (u8::try_from + map_err closure) is a contract: Ok exactly for counts <= 255, the count unchanged (Kani, U11, on the real function)",
                                       "u64::to_le_bytes, Address::{new,as_u64} (U1), `Vec<u8> -> RcValue` (Arc::new) are contracts over uninterpreted functions; std HashMap by the contract of std_hashmap.inc",
                                       "HashColumn is declared with the one field read here (append_only); NodeChange with the two variants produced here",
                                       "`<[T]>::contains` is declared (membership under derived equality) although the code does not call it, so that an edit consulting the list is decided instead of rejected",
                                       "node data below 4 GiB and fewer than 2^32 children per node (size arithmetic inside usize); partial correctness (recursion over a finite tree)",
                                       "the loop of claim_tree_values that turns the per-tier counts into claimed slot lists (iteration over a HashMap by value, ValueTable::claim_entries) is outside the unit: that each tier gets as many slots as preparation counted is the precondition `budget`"]}
for _p in ("C10", "C08"):
    PROPS[_p]["verus_units"] = list(PROPS[_p].get("verus_units", [])) + ["tree_claim"]
PROPS["C10"]["claim"] = PROPS["C10"]["claim"] + " Writer side (Verus, unbounded over tree shape, fan-out and data): HashColumn::claim_node lists every new node exactly once, last among the changes of its subtree, under the address it returns -- a slot claimed for the node's size tier -- and packed as data ++ 8 little-endian address bytes per child in child order ++ child count, which is the format unpack_node_* decodes; the address bytes of a new child are the address its own packed form was listed under, those of an existing child its address; every occurrence of an existing child gets a count increment of its own (a child listed twice is counted twice, matching the release walk, which lowers once per occurrence) unless the column never counts; entries already in the change list are never altered."
PROPS["C08"]["claim"] = PROPS["C08"]["claim"] + " Multitree preparation (Verus, unbounded): HashColumn::prepare_node / prepare_children accept only trees in which every new node's child count fits the count byte -- i.e. every tree packing would reject is rejected before any slot is claimed -- and count exactly one slot per new node in the size tier packing will use; claim_node / claim_children_to_data, given those counts, return no error and take exactly the counted slots, so no claimed slot is left over."
PROPS["C10"]["does_not_cover"] = [x for x in PROPS["C10"]["does_not_cover"] if "claim_tree_values" not in x and "claim_node" not in x] + ["the loop of claim_tree_values that claims the counted slots per tier (HashMap iteration by value, ValueTable::claim_entries)", "that the size tier chosen holds the packed node (tier selection is a contract here)"]
PROPS["C10"]["technique"] = PROPS["C10"]["technique"] + "; Verus contracts on the real node preparation / packing functions (prepare_node, claim_node and their child loops, extracted on every run)"

# ---------------------------------------------------------------- U45 extension: no hole in the record ids of the write-ahead log
PROPS["C03"]["verus_units"] = list(PROPS["C03"].get("verus_units", [])) + ["commit_apply"]
_U45B = " No hole in the write-ahead log (Verus, fragment of process_commits): a record id taken from Log::begin_record for a commit is the id of the record Log::end_record appends for it on every successful path -- replay stops at the first id that is not the successor of the previous one and discards everything behind it, so a skipped record would lose every synced commit after it."
for _p in ("C03", "C13"):
    PROPS[_p]["claim"] = PROPS[_p]["claim"] + _U45B
PROPS["C13"]["verus_units"] = list(PROPS["C13"].get("verus_units", [])) + ["commit_apply"]
UNIT_META["commit_apply"]["assumes"] = UNIT_META["commit_apply"]["assumes"] + ["ghost view of the log (next record id, ids appended): Log::{begin_record,end_record} are contracts taking `&mut self` so that the view can change (the real functions use atomics behind `&self`); planning functions keep the writer's record id; LogChange::is_empty is declared (arbitrary answer) although the code does not call it"]


# ---------------------------------------------------------------- U27 extension: the client-facing seeks forget the parked lookahead (defect 18, fix 3fb2f50)
UNIT_META["iter_reposition"]["functions"] = UNIT_META["iter_reposition"]["functions"] + ["btree::iter::BTreeIterator::{seek,seek_to_last}"]
UNIT_META["iter_reposition"]["assumes"] = UNIT_META["iter_reposition"]["assumes"] + ["client-facing seeks: the `&RwLock<LogOverlays>` field and its read guard are stand-ins declared in the template; `self.iter` is the two fields tree / iter; `<[T]>::to_vec` by contract; the calls to seek_backend / seek_backend_to_last are rewritten to the free-function form the unit gives them (listed rewrites)"]
PROPS["C04"]["claim"] = PROPS["C04"]["claim"] + " Client-facing seeks (Verus): BTreeIterator::seek and seek_to_last forget the parked lookahead of the merge (an item fetched from the tree for the position before the seek), remember the seeked key / the end position for later repositioning, and leave the backend at the key asked for / after the last key."

# ---------------------------------------------------------------- U32 extension: the file is closed for appending before its sync starts
PROPS["C12"]["claim"] = PROPS["C12"]["claim"] + " While and after a log file is synced no record can be appended to it (Kani, bounded): at the fdatasync of Log::flush_one the file has been taken out of the writer slot, or the slot is held exclusively -- a record appended between the sync and the hand-over would be applied to the tables unsynced."
UNIT_META["U32"]["assumes"] = UNIT_META["U32"]["assumes"] + ["File::try_clone (dup(2)) is declared by contract although the code does not call it, so that an edit syncing through a second handle is decided; the other thread is not modelled: the obligation is that the writer slot is empty or exclusively held at the time of the sync"]

# ---------------------------------------------------------------- U62 (Verus fragment: start-up order of Db::open_inner)
UNIT_META["open_order"] = {"functions": ["db::Db::open_inner (fragment: from DbInner::open to the point where the handle is shared)"],
                           "assumes": ["DbInner::{open, replay_all_logs, clean_all_logs, init_table_data} and Log::{clear_replay_logs, kill_logs} are contracts over a ghost view of the handle (how many replays the files have seen; at which of them the in-memory table data was built); replay_all_logs takes `&mut self` in its contract so that the view can change (the real receiver is `&self`), and `let db` / `let mut db` are normalised to `let mut db` (listed rewrite, identity on behaviour)",
                                       "DbInner::open builds nothing from the table files that a later replay would change, or builds it from the files as they are before replay (its contract); what init_table_data builds (U14: free-entry stack mirrors the on-disk list) is checked by Kani on the real ValueTable"]}
for _p in ("C10", "C14", "C03"):
    PROPS[_p]["verus_units"] = list(PROPS[_p].get("verus_units", [])) + ["open_order"]
_U62 = " Start-up order (Verus, fragment of Db::open_inner): the free-entry stacks and reference-count caches (Column::init_table_data) are built after every pending log was replayed into the table files and before the handle is shared -- built earlier they would miss what only the write-ahead log held."
for _p in ("C10", "C14", "C03"):
    PROPS[_p]["claim"] = PROPS[_p]["claim"] + _U62

# ---------------------------------------------------------------- U61 (Kani on a real Log: reclamation order of enacted log files)
for (_nf, _mc) in ((2, 2), (2, 1), (3, 2), (3, 8)):
    M_LOG.harnesses.append(H("u61_clean_logs_f%d_m%d" % (_nf, _mc), "U61", kind="bounded", tiers=("quick", "thorough") if (_nf, _mc) in ((2, 2), (3, 2)) else ("thorough",),
                             shape="Log::clean_logs on %d enacted log files, max_count %d, fsync failing at an arbitrary call" % (_nf, _mc), bound="two or three queued files, empty pool, max_count 1 / 2 / 8; ftruncate / fsync / lseek / close by contract (recorders)"))
UNIT_META["U61"] = {"functions": ["log::Log::clean_logs"], "assumes": ["File::{set_len, sync_all}, <File as Seek>::seek and close(2) replaced by recorders keyed by descriptor; the failing fsync stands for the point where the process stops", "Log::drop_log (remove_file) replaced by a recorder"]}
for _p in ("C03", "C12"):
    PROPS[_p]["kani_units"] = list(PROPS[_p]["kani_units"]) + ["U61"]
    PROPS[_p]["claim"] = PROPS[_p]["claim"] + " Log::clean_logs (Kani, bounded: two or three enacted files) empties enacted log files oldest first and never more than asked for, so wherever reclamation stops the files still on disk are a suffix of the log -- replay numbers records consecutively and discards everything behind a hole; files not reclaimed stay queued."
PROPS["C12"]["does_not_cover"] = [x for x in PROPS["C12"]["does_not_cover"] if "Log::clean_logs" not in x]

# ---------------------------------------------------------------- U50 extension: no log file is touched before the options were checked against the metadata
UNIT_META["column_admin"]["functions"] = UNIT_META["column_admin"]["functions"] + ["db::DbInner::open (fragment: from taking the directory lock to the opening of the columns)"]
UNIT_META["column_admin"]["assumes"] = UNIT_META["column_admin"]["assumes"] + ["evidence encoding: the uninterpreted relation `agrees(options, metadata)` is established only by an Ok of Options::load_and_validate_metadata (U35) and is required by the contract of Log::open (which deletes empty / truncated log files); flock through a function-pointer map_err is a contract (listed rewrite)"]
PROPS["C17"]["claim"] = PROPS["C17"]["claim"] + " Order of DbInner::open (Verus, fragment): Log::open -- which deletes log files it finds empty or shorter than a record header -- runs only after Options::load_and_validate_metadata accepted the requested options, so an open that is refused for disagreeing options has not touched a log file."
PROPS["C17"]["does_not_cover"] = [x.replace("files touched by DbInner::open before validation (directory, lock file)", "the directory and the lock file, which DbInner::open creates before validation") for x in PROPS["C17"]["does_not_cover"]]

# ---------------------------------------------------------------- U22 also serves C14 (an old index dropped before all of it was migrated orphans its values)
PROPS["C14"]["kani_units"] = list(PROPS["C14"]["kani_units"]) + ["U22"]
PROPS["C14"]["claim"] = PROPS["C14"]["claim"] + " Growth bookkeeping (Kani, bounded: two queued older indexes): trigger_reindex queues the old index behind the ones already waiting and leaves the progress of the migration under way alone; drop_index removes the migrated table and starts the next one from its first chunk -- an old table dropped before all of it was moved would leave its values without an index entry."

# ---------------------------------------------------------------- U63 (Kani: what Log::open_log_file makes of the head of a log file)
for (_n, _sh, _q) in (("u63_open_log_file_len0", "empty file", False), ("u63_open_log_file_len1", "1 byte", False), ("u63_open_log_file_len8", "8 bytes (one short of a record header)", True),
                      ("u63_open_log_file_len9", "a complete header, arbitrary bytes", True), ("u63_open_log_file_len9_read_fails", "a complete header, read(2) fails", False)):
    M_LOG.harnesses.append(H(_n, "U63", kind="bounded", tiers=("quick", "thorough") if _q else ("thorough",), shape="Log::open_log_file on a log file holding " + _sh,
                             bound="file lengths 0, 1, 8, 9; open(2) / fstat / read(2) / lseek / close by contract over a scripted file"))
UNIT_META["U63"] = {"functions": ["log::Log::{open_log_file, read_first_record_id}"], "assumes": ["OpenOptions::open, File::metadata, Metadata::len, <File as Read>::read, <File as Seek>::seek, close(2) replaced by contracts over a scripted file; std's read_exact and io::Error classification are the real code"]}
for _p in ("C13", "C16"):
    PROPS[_p]["kani_units"] = list(PROPS[_p]["kani_units"]) + ["U63"]
    PROPS[_p]["claim"] = PROPS[_p]["claim"] + " Head of a log file (Kani, bounded: lengths 0 / 1 / 8 / 9, contents arbitrary): Log::open_log_file reports a file that ends before its first record header is complete as holding no record (Log::open then discards it: a crash while the first record was being appended must not make every later open fail), reports a read failure other than a clean end of file, and otherwise returns the record id the header holds with the file rewound for replay."
PROPS["C13"]["does_not_cover"] = [x.replace(" and the first-record-id read of open_log_file", "") for x in PROPS["C13"]["does_not_cover"]]

# ---------------------------------------------------------------- U64 (Verus fragment of iter_inner: which backend candidate enters the merge step)
UNIT_META["iter_merge"]["functions"] = UNIT_META["iter_merge"]["functions"] + ["btree::iter::BTreeIterator::iter_inner (fragment: from the release of the commit-overlay guard to the merge step -- use of the parked lookahead)"]
UNIT_META["iter_merge"]["assumes"] = UNIT_META["iter_merge"]["assumes"] + ["`pending_backend.take().and_then(|pending| ..)` (a closure) becomes the contract take_pending_for (literal shape rewrite); BTreeIterator::next_backend is a contract here (a step on the tree as of the record: unit iter_reposition)"]
PROPS["C04"]["claim"] = PROPS["C04"]["claim"] + " Parked lookahead (Verus, fragment of iter_inner): the item fetched from the tree but not returned yet is the backend candidate of the next step only if no record was logged since it was fetched and the step goes in the same direction; otherwise the candidate is fetched afresh on the current tree; either way the parked item is consumed."

# ---------------------------------------------------------------- U65 (Verus: reader side of the packed-node format, unbounded, and the round trip with the writer side)
UNIT_META["node_codec"] = {"functions": ["column::unpack_node_data", "column::unpack_node_children", "round-trip lemma packed -> unpacked (over the format U60 proves of claim_node)"],
                           "assumes": ["`u64::from_le_bytes(data[a..b].try_into().unwrap())` and `data.split_at(n).0.to_vec()` become contracts that require the range to be inside the vector (and 8 bytes long): a panic in the real code, proved unreachable (shape rewrites keep the index expressions verbatim)",
                                       "u64::to_le_bytes / from_le_bytes are inverse and 8 bytes long (two axioms over uninterpreted functions)"]}
PROPS["C10"]["verus_units"] = list(PROPS["C10"].get("verus_units", [])) + ["node_codec"]
PROPS["C10"]["claim"] = PROPS["C10"]["claim"] + " Reader side, unbounded (Verus; replaces the bounded harnesses of U11 as the deciding check): for EVERY byte string unpack_node_data / unpack_node_children either reject it (exactly when it is empty or shorter than its count byte demands) or return the prefix before the child bytes and the child address words in order, with no out-of-range slice and no overflow; and a node packed as data ++ address bytes ++ count -- the format claim_node is proved to write -- is decoded to exactly that data and those addresses, for any data and any list of at most 255 children (round-trip lemma)."

# ---------------------------------------------------------------- U66 (Verus fragment: the drain sequence of DbInner::kill_logs, unbounded in the number of commits per stage)
UNIT_META["shutdown_drain"] = {"functions": ["db::DbInner::kill_logs (fragment: the drain sequence after the background-error check)"],
                               "assumes": ["DbInner::{enact_logs, flush_logs, process_commits, clean_all_logs} and Log::kill_logs are contracts over a ghost view of the pipeline (commits queued / appended / readable / applied); they take `&mut self` in the contract (real receivers: `&self`)",
                                           "step semantics assumed: process_commits logs one queued commit per call, enact_logs applies one readable record per call, flush_logs(0) makes every appended record readable; one record per commit (a reindex record is a further 'commit' in this view)",
                                           "the same loop invariant is inserted into each of the three `while self.enact_logs(false)? {}` loops (extractor: `insert loopinv all`)"]}
PROPS["C03"]["verus_units"] = list(PROPS["C03"].get("verus_units", [])) + ["shutdown_drain"]
PROPS["C03"]["claim"] = PROPS["C03"]["claim"] + " Unbounded in the number of commits per stage (Verus, fragment of DbInner::kill_logs; stage functions by contract over a ghost view of the pipeline): when the drain sequence returns Ok no accepted commit is left queued, appended or readable -- all are applied to the tables -- and the log files are reclaimed only after that; every loop of the sequence terminates."
PROPS["C03"]["technique"] = PROPS["C03"]["technique"] + "; Verus contract on the drain sequence of DbInner::kill_logs (fragment)"

# ---------------------------------------------------------------- U67 (Kani: LogReader::next -- action parsing and the checksum gate)
for (_n, _sh, _q) in (("u67_next_begin", "BEGIN_RECORD", True), ("u67_next_insert_index", "INSERT_INDEX", False), ("u67_next_insert_value", "INSERT_VALUE", True), ("u67_next_insert_ref_count", "INSERT_REF_COUNT", False),
                      ("u67_next_end", "END_RECORD (validating)", True), ("u67_next_end_no_validation", "END_RECORD (not validating)", False), ("u67_next_drop_table", "DROP_TABLE", False),
                      ("u67_next_drop_ref_count_table", "DROP_REF_COUNT_TABLE", False), ("u67_next_unknown", "an unknown action byte", True), ("u67_next_insert_value_no_validation", "INSERT_VALUE (not validating)", False)):
    M_LOG.harnesses.append(H(_n, "U67", kind="proof", tiers=("quick", "thorough") if _q else ("thorough",), shape="LogReader::next on a stream starting with " + _sh + ", argument bytes and checksum arbitrary"))
UNIT_META["U67"] = {"functions": ["log::LogReader::next"], "assumes": ["crc32fast::Hasher::{update, finalize} replaced by contracts (update must be handed exactly the bytes read, in order; finalize returns the checksum of what was fed): CRC-32 itself is trusted", "read(2) replaced by a contract over a scripted 16-byte stream (BufReader of capacity 0: every read goes to File::read); complete per action kind (the action byte is enumerated, everything else symbolic)"]}
PROPS["C13"]["kani_units"] = list(PROPS["C13"]["kani_units"]) + ["U67"]
PROPS["C13"]["claim"] = PROPS["C13"]["claim"] + " Checksum gate (Kani, complete per action kind; CRC-32 by contract): LogReader::next hands every byte of a record's actions to the hasher, in order and without gaps, accepts the END_RECORD marker exactly if the four bytes behind it are the hasher's result, rejects unknown action bytes, consumes exactly the bytes of the action and reads record id, table id and position from the bytes where the writer puts them."
PROPS["C13"]["does_not_cover"] = [x.replace("CRC and record sequencing", "CRC-32 itself (crc32fast, trusted); that the payload bytes read through LogReader::read are hashed is part of U9's reader contract") for x in PROPS["C13"]["does_not_cover"]]
PROPS["C12"]["does_not_cover"] = [x for x in PROPS["C12"]["does_not_cover"] if "flush_one when the sync fails" not in x]

# ---------------------------------------------------------------- U68 (Verus fragment: change_ref with its frame)
UNIT_META["ref_change_frame"] = {"functions": ["table::ValueTable::change_ref (fragment: from the tombstone test to the end)"],
                                 "assumes": ["the entry cursor API (is_tombstone, is_multi, skip_size, skip_next, read_size, offset, set_offset, read_rc, write_rc) enters by contract over a ghost view (bytes, offset): each reads / writes exactly the bytes at the cursor (Kani, U5, on the real Entry)",
                                             "`buf[0..size].to_vec()` becomes a contract requiring the range to lie inside the buffer (shape rewrite, size expression verbatim); LogWriter::insert_value records what it is handed (unit log_writer)",
                                             "precondition (layout of a stored entry that carries a counter): the four counter bytes lie inside the entry and the entry inside the buffer; loading the entry (log overlay first, else the file) is in front of the fragment",
                                             "i32::unsigned_abs is declared with its std meaning although the code does not call it"]}
PROPS["C07"]["verus_units"] = list(PROPS["C07"].get("verus_units", [])) + ["ref_change_frame"]
PROPS["C07"]["claim"] = PROPS["C07"]["claim"] + " Frame of a count change (Verus, fragment of change_ref, all counters and entry contents): what change_ref hands to the log is the stored entry, under its own slot, with exactly the four counter bytes replaced by the new count (raised by one, locked at u32::MAX and then never lowered, lowered by one) and nothing else changed; an absent entry and a count that reaches zero log nothing."
PROPS["C07"]["does_not_cover"] = [x for x in PROPS["C07"]["does_not_cover"] if "frame of change_ref" not in x]
PROPS["C08"]["does_not_cover"] = [x for x in PROPS["C08"]["does_not_cover"] if "bg_err state" not in x and "clean_overlay (Entry API)" not in x]

# ---------------------------------------------------------------- U70 (Kani: Node::insert_node -- the split / insert path of inner nodes)
UNIT_META["U70"] = {"functions": ["btree::node::Node::{insert_node, split, shift_from, set_separator, set_child, remove_separator}"],
                    "assumes": ["Node::write_split_child (stores the new right node) replaced by a recorder; keys are not inspected by these operations and are empty in the harness",
                                "complete over the node sizes 0..=ORDER and every insert position (ORDER = 8 is a program constant)"]}
PROPS["C04"]["kani_units"] = list(PROPS["C04"]["kani_units"]) + ["U70"]
PROPS["C04"]["claim"] = PROPS["C04"]["claim"] + " Insert / split path of inner nodes (Kani, complete over node sizes 0..=8 and every position): Node::insert_node puts the separator handed up by a split child at its position and the new child right of it; a full node is split into two packed nodes with a separator handed further up such that reading left node, separator, right node in order gives exactly the old separators and children with the new ones inserted -- nothing lost, duplicated or reordered; only a full node is split."
PROPS["C04"]["does_not_cover"] = [x.replace("insert / split path (Node::change)", "leaf-level insert (Node::insert: creates the value entry) and the operation loop of Node::change") for x in PROPS["C04"]["does_not_cover"]]

# ---------------------------------------------------------------- U71 (Kani: Node::insert at leaf level)
UNIT_META["U71"] = {"functions": ["btree::node::Node::{insert (leaf branch), position, split, shift_from, set_separator, remove_separator, separator_address}"],
                    "assumes": ["Node::create_separator (writes the value entry: Column::write_new_value_plan / write_existing_value_plan, U8d) and Node::write_split_child replaced by contracts (recorders)",
                                "one-byte keys 2, 4, .. 2n in the leaf, the inserted key any byte 1..=2n+1 (every present key and every gap); complete over the leaf sizes 0..=ORDER"]}
PROPS["C04"]["kani_units"] = list(PROPS["C04"]["kani_units"]) + ["U71"]
PROPS["C04"]["claim"] = PROPS["C04"]["claim"] + " Leaf insert (Kani, complete over leaf sizes 0..=8, any key position): Node::insert of an absent key leaves the keys in ascending order with the new key among them carrying the new value and every old key its old value -- also when the full leaf is split into (left, separator handed up, right); of a present key it changes the value of that key only and tells the value writer which address it replaces; exactly one value entry is written."
PROPS["C04"]["does_not_cover"] = [x.replace("leaf-level insert (Node::insert: creates the value entry) and the operation loop of Node::change", "the descent of Node::insert into a child and the operation loop of Node::change (which operation goes to which node)") for x in PROPS["C04"]["does_not_cover"]]

# ---------------------------------------------------------------- C20 side condition: unselected columns are copied only after the source was opened (its logs replayed)
PROPS["C20"]["syntactic"] = list(PROPS["C20"].get("syntactic", [])) + ["migrate_copies_after_source_open"]
PROPS["C20"]["claim"] = PROPS["C20"]["claim"] + " Side condition (text dominance on migration::migrate, an assumption that is checked, not a proof): the source database is opened -- its pending write-ahead logs replayed into its files -- unconditionally and before any column is copied file by file."

# ---------------------------------------------------------------- U73 (Verus: ValueTable::claim_entries, unbounded)
UNIT_META["claim_entries"] = {"functions": ["table::ValueTable::claim_entries"],
                              "assumes": ["the atomics `filled`, `last_removed`, `dirty_header` and the RwLock around the free-entry stack are plain cells in the template and the function takes `&mut self` (two listed rewrites; the body is the text of /repo): the table lock the callers hold (HashColumn::tables upgradable read) is what makes that single-threaded view right",
                                          "precondition: the free-entry stack mirrors the on-disk free list (top = list head, slot 0 never free) -- established by init_table_data and kept by next_free / clear_slot (Kani, U14); distinctness of the slots handed out additionally assumes the free slots are distinct and below the fill mark"]}
for _p in ("C14", "C10", "C08"):
    PROPS[_p]["verus_units"] = list(PROPS[_p].get("verus_units", [])) + ["claim_entries"]
_U73 = " Claiming node slots (Verus, any number of slots, any free list): ValueTable::claim_entries hands out exactly the number asked for -- free slots first, in the order of the on-disk free list, then fresh slots from the fill mark upwards --, takes the claimed slots off the free stack, advances the fill mark by the fresh ones, keeps the list head mirroring the stack top and marks the header dirty; no slot is handed out twice, none that stays on the free list, none beyond the new fill mark."
PROPS["C14"]["claim"] = PROPS["C14"]["claim"] + _U73
PROPS["C10"]["claim"] = PROPS["C10"]["claim"] + " The slots new nodes are packed into (U60's `budget`) come from ValueTable::claim_entries, proved (Verus, unbounded) to hand out distinct slots, none of them still free."
PROPS["C10"]["does_not_cover"] = [x.replace("the loop of claim_tree_values that claims the counted slots per tier (HashMap iteration by value, ValueTable::claim_entries)", "the loop of claim_tree_values that hands each tier's count to claim_entries (HashMap iteration by value)") for x in PROPS["C10"]["does_not_cover"]]

# ---------------------------------------------------------------- U74 (Verus: next_free / clear_slot against the mirror invariant, unbounded)
UNIT_META["free_list"] = {"functions": ["table::ValueTable::next_free", "table::ValueTable::clear_slot"],
                          "assumes": ["atomics and the RwLock around the free-entry stack are plain cells, the functions take `&mut self` (listed rewrites; bodies are the text of /repo); ValueTable::read_next_free is a contract (the link stored in the slot, below the fill mark: Kani U14)",
                                      "the tombstone entry built with the 10-byte cursor (write_tombstone, write_next, `buf[0..buf.offset()].to_vec()`) is a contract over an uninterpreted tombstone codec whose link reads back (Kani U5 / U14 on the real bytes); LogWriter::insert_value by contract (unit log_writer)",
                                      "precondition of clear_slot: the slot freed is not on the free list already and is not slot 0 (caller property)"]}
PROPS["C14"]["verus_units"] = list(PROPS["C14"].get("verus_units", [])) + ["free_list"]
PROPS["C14"]["claim"] = PROPS["C14"]["claim"] + " Free list, unbounded (Verus; any list length, with the in-memory stack of multitree tables): next_free reuses the list head and continues the list with the slot it links to, or hands out the fill mark and advances it; clear_slot turns the slot into a tombstone linking to the previous head and makes it the head, writing no other slot; both keep the stack mirroring the on-disk list (top = head, every slot links to the one below) and mark the header dirty."
PROPS["C06"]["verus_units"] = list(PROPS["C06"].get("verus_units", [])) + ["free_list"]
PROPS["C06"]["claim"] = PROPS["C06"]["claim"] + " Released storage is reusable (Verus, unbounded): a slot freed by clear_slot is the next one next_free hands out, and the list behind it is intact (unit free_list)."

# ---------------------------------------------------------------- U76 (Verus: what is flushed before logs are reclaimed, unbounded over tables / columns)
UNIT_META["flush_all"] = {"functions": ["column::HashColumn::flush (fragment: after taking the table lock)", "column::Tables::get_ref_count", "db::DbInner::clean_all_logs"],
                          "assumes": ["evidence encoding: `synced(t)` is an uninterpreted predicate only a successful flush (msync) of that table / column establishes; tables are opaque values, so the postcondition needs a flush of every one of them",
                                      "the guards `self.tables.read()` / `self.reindex.read()` are parameters of the wrapper; loops name their iterators (listed rewrites)",
                                      "Log::clean_logs requires every column synced (its contract; U61 covers what it does to the files)"]}
for _p in ("C12", "C03"):
    PROPS[_p]["verus_units"] = list(PROPS[_p].get("verus_units", [])) + ["flush_all"]
PROPS["C12"]["claim"] = PROPS["C12"]["claim"] + " Unbounded (Verus, any number of value tables, queued tables and columns; evidence encoding): HashColumn::flush syncs the current index, every value table, the reference-count table and every index / reference-count table still queued for migration; DbInner::clean_all_logs flushes every column before it asks the log to reclaim a file."
PROPS["C12"]["technique"] = PROPS["C12"]["technique"] + "; Verus contracts on HashColumn::flush (fragment) and DbInner::clean_all_logs"

# ---------------------------------------------------------------- U77 (Verus fragment: Log::end_record publishes the record into the log overlay)
UNIT_META["log_publish"] = {"functions": ["log::Log::end_record (fragment: from the point where the record has been appended to the log file to the end)"],
                            "assumes": ["std HashMap by contract; `for (id, overlay) in m.into_iter()` becomes repeated removal of an arbitrary entry (take_any) and `a.extend(b.into_iter())` the contract extend_from (entries of b win) -- listed rewrites; loop invariants ride on the rewritten loop headers",
                                        "different tables of one record have different positions in the overlay vectors and lie inside them (TableId::log_index: Kani U5; the vectors are sized by LogOverlays::with_columns)",
                                        "a record touches fewer than 2^32 slots per table and fewer than 2^16 tables (the counters that feed the debug line stay inside usize)",
                                        "the write guard of `self.overlays`, the open log file's size field and the `dirty` flag are parameters of the wrapper"]}
PROPS["C01"]["verus_units"] = PROPS["C01"]["verus_units"] + ["log_publish"]
PROPS["C01"]["claim"] = PROPS["C01"]["claim"] + " Publication into the log overlay (Verus, fragment of Log::end_record, unbounded over the tables and slots of a record): when end_record returns, every value entry, index chunk and reference-count chunk of the record is in the shared log overlay under its own table and slot (the record's entries replace older ones of the same slot), entries the record does not name stay as they were, and the last record id of every column the record writes values of is advanced -- so a key whose commit has just left the commit overlay (unit commit_apply: only after end_record returned Ok) is found in the log overlay."
PROPS["C01"]["does_not_cover"] = [x for x in PROPS["C01"]["does_not_cover"] if "Log::end_record" not in x] + ["the first half of Log::end_record (choosing / creating the log file, LogChange::flush_to_file writing the record bytes: U51 bounded) and the reader side of LogWriter (closures)"]
PROPS["C04"]["verus_units"] = list(PROPS["C04"].get("verus_units", [])) + ["log_publish"]
PROPS["C04"]["claim"] = PROPS["C04"]["claim"] + " The record id iterators re-position on (LogOverlays::last_record_id of the column) is advanced by Log::end_record for every column a record writes values of (Verus, unit log_publish)."

# ---------------------------------------------------------------- U60 extension: the InsertTree arm of claim_tree_values (closes the gap between preparation and packing)
UNIT_META["tree_claim"]["functions"] = UNIT_META["tree_claim"]["functions"] + ["column::HashColumn::claim_tree_values (fragment: the InsertTree arm)"]
UNIT_META["tree_claim"]["assumes"] = [x for x in UNIT_META["tree_claim"]["assumes"] if "the loop of claim_tree_values" not in x] + ["claim_tree_values fragment: the table lock / `self.as_ref(&tables.value)` are the `values` parameter of the wrapper; `Default::default()` of the three maps is the contract new_empty; `for (tier, count) in tier_count` (iteration by value) becomes repeated removal of an arbitrary entry; `values.tables[tier].claim_entries(count)` is a contract returning exactly `count` slots (proved of the real function by unit claim_entries, U73); fewer than 2^64 new nodes per tier"]
PROPS["C10"]["claim"] = PROPS["C10"]["claim"] + " The InsertTree arm of claim_tree_values as a whole (Verus, fragment): the root is packed in the same format, every tier gets exactly the slots preparation counted before any node is packed (so packing cannot run out of slots or leave one over), a tree is accepted only if every new node's child count fits the count byte."
PROPS["C10"]["does_not_cover"] = [x for x in PROPS["C10"]["does_not_cover"] if "the loop of claim_tree_values" not in x]

# ---------------------------------------------------------------- U74 extension: init_table_data establishes the mirror invariant the other free-list units assume
UNIT_META["free_list"]["functions"] = UNIT_META["free_list"]["functions"] + ["table::ValueTable::init_table_data"]
UNIT_META["free_list"]["assumes"] = UNIT_META["free_list"]["assumes"] + ["init_table_data: TableFile::read_at into the 10-byte cursor is a contract (the cursor holds the bytes stored at the offset; slot i at offset i * entry_size); partial correctness -- a cyclic on-disk list would make the real loop spin (not a claim here); fill mark times entry size fits in u64"]
PROPS["C14"]["claim"] = PROPS["C14"]["claim"] + " At start-up ValueTable::init_table_data (Verus, any list length) builds the stack so that it mirrors the on-disk free list -- top = list head, every slot links to the one below, every free slot below the fill mark -- which is the invariant claim_entries / next_free / clear_slot assume and keep; a link at or beyond the fill mark is reported as corruption."

# ---------------------------------------------------------------- U74 extension: the table header record
UNIT_META["free_list"]["functions"] = UNIT_META["free_list"]["functions"] + ["table::ValueTable::complete_plan"]
UNIT_META["free_list"]["assumes"] = UNIT_META["free_list"]["assumes"] + ["complete_plan: Header::{default, set_last_removed, set_filled} and `buf.0.to_vec()` are contracts over an uninterpreted 16-byte header codec (Kani U5 on the real Header); AtomicBool::compare_exchange has its std meaning on a plain cell"]
PROPS["C14"]["claim"] = PROPS["C14"]["claim"] + " ValueTable::complete_plan (Verus) writes the header to the log exactly when the list head or the fill mark changed since it was last written, with their current values, and takes the change flag down."

# ---------------------------------------------------------------- U79 (Verus: growth bookkeeping, unbounded over the queue of older index tables)
UNIT_META["reindex_queue"] = {"functions": ["column::HashColumn::trigger_reindex (fragment: between upgrading and downgrading the guards)", "column::HashColumn::drop_index"],
                              "assumes": ["the upgraded write guards of `tables` / `reindex` are `&mut` parameters / a field of the wrapper (listed rewrites); the progress counter is a plain cell; std::mem::replace by contract",
                                          "the closure `front_mut().map_or(false, |e| ..)` of drop_index is the contract front_is_index (literal shape rewrite); IndexTable::{create_new, drop_file} and IndexTableId::{new, col, index_bits} are contracts over uninterpreted functions"]}
for _p in ("C09", "C14", "C01"):
    PROPS[_p]["verus_units"] = list(PROPS[_p].get("verus_units", [])) + ["reindex_queue"]
_U79 = " Growth bookkeeping, unbounded over the number of queued tables (Verus): trigger_reindex puts the index that filled up at the back of the queue, leaves the progress of the migration under way alone and continues on a fresh index one bit larger; drop_index removes a table only if it is the one at the front of the queue, removes its file and resets the progress counter so that the next table is migrated from its first chunk; any other id changes nothing."
for _p in ("C09", "C14"):
    PROPS[_p]["claim"] = PROPS[_p]["claim"] + _U79

# ---------------------------------------------------------------- U74 extension: refresh_metadata
UNIT_META["free_list"]["functions"] = UNIT_META["free_list"]["functions"] + ["table::ValueTable::refresh_metadata"]
UNIT_META["free_list"]["assumes"] = UNIT_META["free_list"]["assumes"] + ["refresh_metadata: `self.file.map.read().is_none()` and `self.file.read_at(&mut header.0, 0)` are contracts (is the file mapped; the 16 header bytes at offset 0); Header::{last_removed, filled} decode them (Kani U5)"]
PROPS["C14"]["claim"] = PROPS["C14"]["claim"] + " ValueTable::refresh_metadata (Verus) re-reads the list head and the fill mark from the header on disk whatever they were in memory (a replayed record may have changed either alone) and starts an empty table at slot 1."

# ---------------------------------------------------------------- U72 (Kani: Node::on_existing at leaf level)
UNIT_META["U72"] = {"functions": ["btree::node::Node::{on_existing (leaf branch), position, remove_separator, remove_from, need_rebalance, separator_address}"],
                    "assumes": ["Column::write_existing_value_plan (releases the value entry / lowers its count: U8d) replaced by its contract with a scripted outcome (value gone / value stays)",
                                "one-byte keys as in U71; complete over the leaf sizes 0..=ORDER and every key position"]}
PROPS["C04"]["kani_units"] = list(PROPS["C04"]["kani_units"]) + ["U72"]
PROPS["C04"]["claim"] = PROPS["C04"]["claim"] + " Leaf removal (Kani, complete over leaf sizes 0..=8, any key): Node::on_existing releases the value entry of exactly the key named, once; if the value goes away the key leaves the leaf and the other keys stay packed, in order, each with its own value,; a key that is not in the leaf changes nothing."

# ---------------------------------------------------------------- C18 (claimed during the build, level other): where the directory lock stands in the life of a handle
UNIT_META["dir_lock"] = {"functions": ["db::DbInner::open (fragment: from the locking of the lock file to the construction of the handle)", "db::Db::drop_inner (fragment: shutdown drain and release of the lock)"],
                         "assumes": ["evidence encoding: `holds_lock` is established only by a successful try_lock_exclusive on the lock file (flock through fs2, a function-pointer map_err: shape rewrite) and required by Options::load_and_validate_metadata, Log::open and Column::open; `drained` only by DbInner::kill_logs; `unlock_called` only by FileExt::unlock",
                                     "what an advisory lock guarantees between handles and processes (flock(2): exclusive, released when the descriptor is closed or the process dies) is the operating system's and is trusted",
                                     "the statements of DbInner::open in front of the lock (creating the directory, testing for the metadata file, creating the lock file) are outside the fragment: they necessarily run without the lock"]}
PROPS["C18"] = {
    "kani_units": [],
    "verus_units": ["dir_lock"],
    "level": "other",
    "technique": "Verus contracts (evidence encoding) on the real DbInner::open and Db::drop_inner, fragments extracted on every run; flock(2) semantics trusted",
    "claim": "Only the obligations of the code around the advisory lock (what the lock means between handles and processes is the operating system's): DbInner::open takes the exclusive lock on the directory's lock file before it reads the metadata, before it scans the log directory (Log::open deletes empty log files) and before it opens any column file, and an open that does not get the lock returns the lock error without doing any of that; a handle exists only with the lock held; Db::drop_inner releases the lock only after the shutdown drain (DbInner::kill_logs, the last file activity of the handle) has run, and releases it on every path, also when the drain reports an error.",
    "level_note": "Verus, two fragments. Not decided: that a second handle's try_lock fails (flock semantics), that nothing is changed by a refused open in front of the lock (the directory and an empty lock file may be created), thread joins in front of the drain, a process that dies (the kernel releases the lock).",
    "trusted_base": TB,
    "explanation": "Ordering obligations of the locking mechanism proved on the real text; level 'other' because the cross-handle / cross-process clause itself rests on the operating system.",
    "does_not_cover": ["flock(2) semantics between handles and processes", "what DbInner::open does in front of the lock (create_dir_all, lock file creation)", "read-only opens of a directory without database (fix ad874f8 is outside the contracts)", "process death"],
}

# ---------------------------------------------------------------- U52 extension: apply writes land in the slot the record names
PROPS["C13"]["claim"] = PROPS["C13"]["claim"] + " Every write of ValueTable::enact_plan starts at the byte offset of the slot the record names (header records at offset 0) and takes its bytes from the front of the entry buffer the record was read into (Verus, fragment)."

# ---------------------------------------------------------------- U61 also serves C16 (an I/O error in the middle of log reclamation)
PROPS["C16"]["kani_units"] = list(PROPS["C16"]["kani_units"]) + ["U61"]
PROPS["C16"]["claim"] = PROPS["C16"]["claim"] + " An I/O error in the middle of log reclamation (Kani, bounded: Log::clean_logs with fsync failing at an arbitrary call) leaves a suffix of the enacted log files on disk -- the files emptied so far are the oldest ones -- so the reopen replays no older record over a newer state."

# ---------------------------------------------------------------- U81 (Verus: ValueTable::overwrite_chain for a fresh value, unbounded in value length / number of parts)
UNIT_META["chain_write"] = {"functions": ["table::ValueTable::overwrite_chain (a fresh value: a new slot from the free list, or a slot claimed beforehand)"],
                            "assumes": ["the entry buffer is a cursor by contract over a ghost description of the part under construction (marker or size word, link, counter, stored key, payload); `enc` is the uninterpreted byte encoding of such a description -- that the cursor functions write exactly these fields at the offsets the reader decodes is what Kani proves on the real Entry (U5, U6-W/R bounded)",
                                        "`buf.write_slice(&value[a..b])` and `buf[0..buf.offset()].to_vec()` are contracts that require the ranges to be in bounds (shape rewrites, index expressions verbatim); the exec `assert!` on the value size is evaluated in exec mode and then proved (listed rewrite)",
                                        "next_free is a contract over a ghost set of free slots (a slot that was free, not slot 0, no longer free: units free_list / claim_entries); the function takes `&mut self` so that the set can change",
                                        "geometry: an entry holds the marker, the link, the counter, the stored key and at least one payload byte; entry size below 2^15; value shorter than 2^48 bytes",
                                        "replacing an existing chain (following its links, releasing surplus parts) is not under this contract: bounded Kani unit U6-W"]}
PROPS["C06"]["verus_units"] = list(PROPS["C06"].get("verus_units", [])) + ["chain_write"]
PROPS["C06"]["claim"] = PROPS["C06"]["claim"] + " Writer side for a fresh value, unbounded (Verus: any value length, any number of parts): ValueTable::overwrite_chain lays the value out over a chain of distinct slots starting at the slot it returns -- each part starts where the previous one ended, the first carries the chain marker (or, if the value fits one slot, the size word), the counter 1 of a counted table and the stored key, middle parts carry the continuation marker, every chained part links to the next and holds exactly the payload bytes that fill its slot, the last part carries the size word of what remains -- takes every further slot from the free set, never slot 0, writes no other slot, and takes no out-of-range slice of the value."
PROPS["C06"]["technique"] = PROPS["C06"]["technique"] + "; Verus contract on the real overwrite_chain (fresh values, unbounded) with the entry cursor by contract"

# ---------------------------------------------------------------- U82 (Verus: ValueTable::overwrite_chain replacing a stored value, unbounded)
UNIT_META["chain_replace"] = {"functions": ["table::ValueTable::overwrite_chain (a stored value is replaced in place; second extraction of the same function text under the contract of the overwrite path)"],
                              "assumes": ["as unit chain_write (entry cursor by contract, chain layout as a spec, next_free over a ghost free set)",
                                          "precondition: the chain being replaced is a proper chain in the current view of the table -- distinct slots, none of them free or slot 0, each linking to the next (ValueTable::read_next_part by contract: the link decoded from the slot, U6-R)",
                                          "ValueTable::clear_chain is a contract: it writes only the slots of the old chain from the given slot on and returns them to the free list (clear_slot per part: unit free_list); partial correctness of its loop"]}
PROPS["C06"]["verus_units"] = list(PROPS["C06"].get("verus_units", [])) + ["chain_replace"]
PROPS["C06"]["claim"] = PROPS["C06"]["claim"] + " In-place overwrite, unbounded (Verus: any length of the old chain and of the new value): the same function reuses the slots of the old chain in order as far as the new value needs them -- the value keeps its first slot --, continues on slots from the free set when the old chain is shorter, lays the new value out in the same prescribed format, touches no slot outside these, and releases the parts of the old chain behind the last one it reused (a shorter value frees the tail)."
PROPS["C06"]["does_not_cover"] = [x for x in PROPS["C06"]["does_not_cover"] if "composition over histories" not in x] + ["composition over histories of overwrites (each step is proved against the chain format; the reader side for_parts is bounded, U6-R)"]
PROPS["C14"]["verus_units"] = list(PROPS["C14"].get("verus_units", [])) + ["chain_replace"]
PROPS["C14"]["claim"] = PROPS["C14"]["claim"] + " An in-place overwrite leaves no orphan part: the surplus tail of the old chain is released, the reused slots stay linked (Verus, unit chain_replace)."

# ---------------------------------------------------------------- U83 (Verus: ValueTable::clear_chain, unbounded)
UNIT_META["chain_clear"] = {"functions": ["table::ValueTable::clear_chain"],
                            "assumes": ["ValueTable::read_next_part (the link decoded from a slot: U6-R) and ValueTable::clear_slot (unit free_list: the slot becomes a tombstone and free, nothing else is written) are contracts; the function takes `&mut self` and a ghost parameter naming the position of the given part in the chain (signature rewrite)",
                                        "precondition: from the given part on the chain is proper in the current view (distinct slots, each linking to the next, the last to nothing); termination is proved on such a chain -- on a cyclic chain the real loop does not terminate (not a claim)"]}
for _p in ("C06", "C14"):
    PROPS[_p]["verus_units"] = list(PROPS[_p].get("verus_units", [])) + ["chain_clear"]
PROPS["C06"]["claim"] = PROPS["C06"]["claim"] + " Releasing a chain (Verus, any chain length): ValueTable::clear_chain turns every part from the given one to the end of the chain into a tombstone that can be handed out again, marks the header dirty, writes no slot outside that tail -- also when it stops on a read error -- and terminates on a proper chain."

# ---------------------------------------------------------------- U84 (Verus: the value-table operations a column calls -- dispatch to the chain / counter functions)
UNIT_META["value_ops"] = {"functions": ["table::ValueTable::{write_insert_plan, write_replace_plan, write_claimed_plan, write_remove_plan, write_inc_ref, write_dec_ref}"],
                          "assumes": ["overwrite_chain, clear_chain, clear_slot and change_ref enter by uninterpreted relations between the record before and after the call -- what those relations mean is proved in units chain_write / chain_replace / chain_clear / free_list / ref_change_frame"]}
for _p in ("C06", "C07"):
    PROPS[_p]["verus_units"] = list(PROPS[_p].get("verus_units", [])) + ["value_ops"]
PROPS["C07"]["claim"] = PROPS["C07"]["claim"] + " write_dec_ref (Verus) keeps a value exactly when change_ref reports its count still positive and otherwise releases its storage (all parts of a chained value); write_inc_ref raises the count by one."
PROPS["C06"]["claim"] = PROPS["C06"]["claim"] + " The table operations a column calls dispatch to these functions in the right mode (Verus): insert = a fresh value on a free slot, replace = overwrite in place following the stored chain, claimed = a claimed slot written without following what it held, remove = the whole chain on a chained table and the one slot otherwise."

# ---------------------------------------------------------------- U76 extension: metadata fan-out of a hash column, unbounded over its value tables
UNIT_META["flush_all"]["functions"] = UNIT_META["flush_all"]["functions"] + ["column::HashColumn::refresh_metadata (fragment)", "column::HashColumn::complete_plan (fragment)"]
PROPS["C14"]["verus_units"] = list(PROPS["C14"].get("verus_units", [])) + ["flush_all"]
PROPS["C14"]["claim"] = PROPS["C14"]["claim"] + " Metadata fan-out, unbounded over the value tables of a hash column (Verus): refresh_metadata re-reads the header of every value table after replay, complete_plan lets every value table log its header once per commit."

# ---------------------------------------------------------------- U85 (Verus: Log::replay_next)
UNIT_META["log_queues"] = {"functions": ["log::Log::replay_next"],
                           "assumes": ["the RwLocks around `reading`, the cleanup queue and the replay queue are plain cells and the function takes `&mut self` (listed rewrites); File / BufReader are stand-ins that carry the identity of the file; log::Reading is declared with them"]}
for _p in ("C13", "C03"):
    PROPS[_p]["verus_units"] = list(PROPS[_p].get("verus_units", [])) + ["log_queues"]
    PROPS[_p]["claim"] = PROPS[_p]["claim"] + " Log::replay_next (Verus) hands the file just replayed to the cleanup queue under its own id (it is emptied only by the reclaim step, after the tables were flushed) and takes the next file to replay from the front of the replay queue, leaving the order of the rest as Log::open established it."

# ---------------------------------------------------------------- U86 (Verus: the two small slot readers the chain / free-list units take by contract)
UNIT_META["slot_reads"] = {"functions": ["table::ValueTable::read_next_part", "table::ValueTable::read_next_free"],
                           "assumes": ["LogWriter::value (does the current view hold the slot; if so its bytes) and TableFile::read_at are contracts over the 10-byte cursor; the marker test and the link decoder are uninterpreted functions of the bytes (Kani U5)", "the slot's byte offset fits in u64"]}
for _p in ("C06", "C14", "C01"):
    PROPS[_p]["verus_units"] = list(PROPS[_p].get("verus_units", [])) + ["slot_reads"]
PROPS["C06"]["claim"] = PROPS["C06"]["claim"] + " The readers those proofs take by contract are themselves proved (Verus): read_next_part / read_next_free decode the slot as the current view of the table holds it -- the record under assembly and the log overlay first, the table file only otherwise, at the slot's own offset -- and a free-list link at or beyond the fill mark is reported as corruption."
PROPS["C01"]["claim"] = PROPS["C01"]["claim"] + " Table reads prefer the log view (Verus, unit slot_reads, for the two link readers): the file is consulted only for slots the record under assembly / log overlay does not hold."

# ---------------------------------------------------------------- U23 extension: a batch that makes the tree lose two levels (seed R5-C14-2)
M_BTTREE.harnesses.append(H("u23_two_collapses_in_one_batch", "U23", kind="bounded", shape="BTree::write_sorted_changes, two changes, the root collapses after each of them", bound="two collapses in one batch; Node::change / need_remove_root / write_plan_remove_node by contract"))
PROPS["C14"]["claim"] = PROPS["C14"]["claim"] + " A batch that makes a btree lose several levels releases every root node it empties, each exactly once (Kani, bounded: two collapses in one write_sorted_changes call)."

# ---------------------------------------------------------------- U49 extension: the current uniform-key format hashes the whole key (seed R6-C01-2)
for _n in (33, 40):
    M_COLUMN.harnesses.append(H("u49_hash_key_hashes_whole_key_len%d" % _n, "U49", kind="bounded", tiers=("quick", "thorough") if _n == 33 else ("thorough",), shape="hash_key on a uniform column (current version), key of %d arbitrary bytes: what is handed to SipHash" % _n, bound="key lengths 33, 40; SipHasher13::write by recorder"))
PROPS["C01"]["claim"] = PROPS["C01"]["claim"] + " The current uniform-key format feeds the whole key to the keyed hash, in order (Kani, bounded lengths 33 / 40; SipHasher13::write by recorder): keys that agree on their first 32 bytes are not forced onto one internal key."

# ---- C03: Db::drop_inner joins every worker before the drain (text dominance, reported as an assumption that is checked)
PROPS["C03"]["syntactic"] = list(PROPS["C03"].get("syntactic", [])) + ["drop_joins_workers_before_kill_logs"]
