#!/bin/bash
# usage: seedimport.sh <PROP> <round-tag>   imports /tmp/seed/<PROP>-out/{A,B}.* as seeded/<round-tag>-<PROP>-{1,2} and confirms
# (a) demo passes on the clean tree, (b) demo fails with the change, (c) the 36 existing tests pass with the change,
# in the scratch worktree /tmp/seed/<PROP>. Writes the outcome into meta.json:confirmed.
P=$1; R=$2; WT=/tmp/seed/$P; OUT=/tmp/seed/$P-out
n=0
for X in A B; do
  n=$((n+1)); D=/verif/seeded/$R-$P-$n; mkdir -p $D
  cp $OUT/$X.patch.diff $D/patch.diff; cp $OUT/$X.demo.diff $D/demo.diff
  cmd=$(python3 -c "
import json,re
m=json.load(open('$OUT/$X.meta.json'))
c=m['demo_cmd']
c=re.sub(r'cd /tmp/seed/\w+\s*&&\s*','',c); c=re.sub(r'git apply \S+\s*&&\s*','',c)
print(c)")
  cd $WT || exit 9
  git checkout -q -- . ; git clean -fdq src tests examples 2>/dev/null
  git apply $D/patch.diff || { echo "$D: PATCH DOES NOT APPLY"; continue; }
  suite=$(cargo test --workspace --no-fail-fast --offline -j 8 2>&1 | grep -E "^test result" | tr '\n' ';')
  git apply $D/demo.diff || echo "$D: demo does not apply on changed tree"
  (eval "$cmd") > /tmp/seed/$P-$X-with.log 2>&1; with_rc=$?
  git checkout -q -- . ; git clean -fdq src tests examples 2>/dev/null
  git apply $D/demo.diff
  (eval "$cmd") > /tmp/seed/$P-$X-without.log 2>&1; without_rc=$?
  git checkout -q -- . ; git clean -fdq src tests examples 2>/dev/null
  python3 - <<PY
import json
m=json.load(open('$OUT/$X.meta.json'))
m['round']='$R'; m['origin']='independent sub-agent given only the property text and a scratch worktree'
m['demo_cmd_run']='''$cmd'''
m['confirmed']={'suite_with_change':'''$suite''','demo_with_change_exit':$with_rc,'demo_without_change_exit':$without_rc}
json.dump(m,open('$D/meta.json','w'),indent=1)
PY
  echo "$D suite=[$suite] demo_with=$with_rc demo_without=$without_rc"
done
