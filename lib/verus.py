"""Verus route: extract real functions from /repo now, splice contracts, run verus, map diagnostics to obligations."""
import json, os, re, shutil, subprocess, tempfile, time

import extract, scratch

VERIF = scratch.VERIF
TDIR = os.path.join(VERIF, "contracts", "verus")

FALSIFIED_KINDS = [
    "postcondition not satisfied", "assertion failed", "invariant not satisfied", "precondition not satisfied",
    "possible arithmetic underflow/overflow", "possible division by zero", "decreases not satisfied",
    "possible bit shift underflow/overflow", "recommendation not met", "loop invariant",
    "unreachable", "index out of bounds", "possible", "might fail", "requires not satisfied",
]
# units whose single loop query is heavy (measured: chain_write needs about 60 s of solver time)
RLIMIT = {"chain_write": "400", "chain_replace": "400", "chain_clear": "100"}
RESOURCE_KINDS = ["rlimit", "resource limit", "timed out", "timeout"]


def run_unit(unit, repo=None, keep=False):
    t0 = time.time()
    repo = repo or scratch.REPO
    tpath = os.path.join(TDIR, unit + ".rs.tmpl")
    rep = {"unit": unit, "status": "undecided", "reason": "", "cmd": "verus %s.rs --output-json --time (generated from %s)" % (unit, os.path.relpath(tpath, VERIF)),
           "failed": [], "named": [], "obligations": 0, "verified": 0, "errors": 0}
    if not os.path.exists(tpath):
        rep["reason"] = "template missing"
        return rep
    tmpl = open(tpath).read()
    try:
        gen, notes, spans, originals = extract.expand(tmpl, repo)
    except extract.LostAnchor as e:
        rep["reason"] = "extraction failed (lost anchor): %s" % e
        return rep
    d = tempfile.mkdtemp(prefix="pdbverus-", dir=scratch.tmp_root())
    try:
        f = os.path.join(d, unit + ".rs")
        open(f, "w").write(gen)
        cmd = ["verus", f, "--output-json", "--time", "--rlimit", RLIMIT.get(unit, "60"), "--num-threads", "8"]
        try:
            p = subprocess.run(cmd, stdout=subprocess.PIPE, stderr=subprocess.PIPE, text=True, timeout=900, errors="replace")
        except subprocess.TimeoutExpired:
            rep["reason"] = "verus timed out"
            return rep
        out, err = p.stdout, p.stderr
        rep["extraction_notes"] = notes
        rep["functions"] = [s[0] for s in spans]
        rep["trusted_scan"] = scan(gen)
        lines = gen.split("\n")
        tags = {}
        for i, l in enumerate(lines, 1):
            m = re.search(r"//\s*@([\w.\-\[\]=<>]+)", l)
            if m:
                tags[i] = m.group(1)
        rep["named"] = sorted(set(tags.values()))
        try:
            j = json.loads(out[out.index("{"):])
        except Exception:
            j = None
        if j and "verification-results" in j:
            vr = j["verification-results"]
            rep["verified"] = vr.get("verified", 0)
            rep["errors"] = vr.get("errors", 0)
            rep["obligations"] = rep["verified"] + rep["errors"]
            tm = j.get("times-ms", {})
            rep["smt_s"] = round((tm.get("smt", {}).get("total", 0) if isinstance(tm.get("smt"), dict) else 0) / 1000.0, 2)
            rep["verus_total_s"] = round(tm.get("total", 0) / 1000.0, 2) if isinstance(tm.get("total"), (int, float)) else None
        else:
            rep["reason"] = "verus produced no JSON result: " + (err[-1500:] or out[-1500:])
            if keep:
                rep["kept"] = d
            return rep
        # ---------------- diagnostics
        blocks = re.split(r"\n(?=error|note|warning|help)", err)
        hard = []
        resource = []
        for b in blocks:
            if not b.startswith("error"):
                continue
            head = b.split("\n", 1)[0]
            if head.startswith("error: aborting") or "could not compile" in head:
                continue
            kind = head[len("error"):].lstrip(": ").strip()
            pm = re.search(r"-->\s*[^:\n]+:(\d+):(\d+)", b)
            pl = int(pm.group(1)) if pm else 0
            gut = [int(x) for x in re.findall(r"^\s*(\d+)\s*\|", b, re.M)]
            fn = None
            for (name, a, z) in spans:
                if a <= pl <= z:
                    fn = name
            names = [tags[g] for g in gut if g in tags]
            clause_lines = [lines[g - 1].strip() for g in gut if 0 < g <= len(lines)]
            low = kind.lower()
            if any(k in low for k in RESOURCE_KINDS):
                # a query that ran out of resources decides nothing by itself; it makes the unit undecided unless another
                # diagnostic of the same run falsifies a named obligation (a definite verdict of the solver)
                resource.append(head)
                continue
            if any(k in low for k in FALSIFIED_KINDS):
                obl = names[0] if names else "%s.%s[%s]" % (unit, fn or "?", kind[:50])
                rep["failed"].append({"obligation": obl, "clause": " | ".join(clause_lines[:4]), "function": fn,
                                      "diag": b[:3000], "text": originals.get(fn, "")[:6000]})
            else:
                hard.append(head)
        if resource and not [f for f in rep["failed"] if not f["obligation"].startswith(unit + ".")]:
            rep["status"] = "undecided"
            rep["reason"] = "verus resource limit: " + resource[0]
            return rep
        if resource:
            rep["note"] = "some queries ran out of resources: " + "; ".join(resource[:2])
        if hard:
            rep["status"] = "undecided"
            rep["reason"] = "verus rejected the generated file (unsupported construct / type error after upstream edit): " + "; ".join(hard[:3])
            rep["diag"] = err[-3000:]
            return rep
        if rep["errors"] and not rep["failed"]:
            rep["status"] = "undecided"
            rep["reason"] = "verus reported errors that map to no obligation: " + err[-1500:]
            return rep
        if rep["verified"] == 0 and not rep["failed"]:
            rep["status"] = "undecided"
            rep["reason"] = "zero obligations verified (vacuous run)"
            return rep
        rep["status"] = "failed" if rep["failed"] else "verified"
        rep["wall_s"] = round(time.time() - t0, 1)
        return rep
    finally:
        if keep:
            print("verus file kept at", d)
        else:
            shutil.rmtree(d, ignore_errors=True)


def scan(text):
    out = {}
    for pat in [r"external_body", r"assume_specification", r"\badmit\(", r"\bassume\(", r"uninterp", r"external_type_specification", r"\baxiom\b"]:
        n = len(re.findall(pat, text))
        if n:
            out["verus:" + pat.replace("\\b", "").replace("\\(", "(")] = n
    return out
