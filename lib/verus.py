"""Verus route (filled in below)."""


def run_unit(unit):
    return {"unit": unit, "status": "undecided", "reason": "not implemented", "cmd": "verus"}
