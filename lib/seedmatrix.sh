#!/bin/bash
# usage: lib/seedmatrix.sh [seed names...]   (default: every directory under seeded/)
# Applies each seeded change to a scratch copy of /repo (never to /repo itself), runs the quick check of the property it
# breaks (meta.json:property, plus meta.json:also_check if present) with VERIF_REPO pointing at the copy, and writes
# seeded/<id>/check-<prop>-quick.log and seeded/MATRIX.md (one line per seed: caught / missed / undecided, by which obligation).
V=$(cd "$(dirname "$0")/.." && pwd)
cd $V
seeds="$@"; [ -z "$seeds" ] && seeds=$(ls seeded | grep -v MATRIX)
OUT=seeded/MATRIX.md
[ $# -eq 0 ] && { echo "| seed | property | verdict | first failed obligation(s) |"; echo "|---|---|---|---|"; } > $OUT
# PAR=<n>: run n seeds at a time (each in its own scratch copy); lines are appended as seeds finish, sort afterwards
if [ -n "$PAR" ] && [ $# -eq 0 ]; then
  P=$PAR; export PAR=
  echo $seeds | tr ' ' '\n' | xargs -P $P -n 1 "$0"
  { head -2 $OUT; tail -n +3 $OUT | sort; } > $OUT.tmp && mv $OUT.tmp $OUT
  exit 0
fi
for s in $seeds; do
  [ -f seeded/$s/patch.diff ] || continue
  props=$(python3 -c "import json;m=json.load(open('seeded/$s/meta.json'));print(' '.join([m['property']]+m.get('also_check',[])))")
  for P in $props; do
    M=$(mktemp -d /tmp/mrepo-XXXX)
    rsync -a --exclude /target --exclude /.git /repo/ $M/
    if ! (cd $M && git init -q . 2>/dev/null; git apply $V/seeded/$s/patch.diff); then echo "| $s | $P | patch-does-not-apply | |" >> $OUT; rm -rf $M; continue; fi
    VERIF_REPO=$M ./check $P --tier quick > seeded/$s/check-$P-quick.log 2>&1; rc=$?
    rm -rf $M
    obl=$(grep -E "FAILED-OBLIGATION" seeded/$s/check-$P-quick.log | sed -E 's/.*obligation=([^ ]+).*/\1/' | sort -u | head -3 | tr '\n' ' ')
    [ -z "$obl" ] && obl=$(grep -E "VIOLATION" seeded/$s/check-$P-quick.log | sed -E 's/.*replay=[^ ]*\/([^ ]+).*/\1/' | sort -u | head -3 | tr '\n' ' ')
    case $rc in 0) v=missed;; 1) v=caught;; *) v="undecided(rc=$rc)";; esac
    echo "| $s | $P | $v | $obl |" >> $OUT
    echo "$s $P rc=$rc $obl"
  done
done
