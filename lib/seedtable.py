#!/usr/bin/env python3
"""Regenerates seeded/TABLE.md from seeded/*/meta.json and seeded/MATRIX.md: one line per seeded change with what it changes,
what it needs to manifest and which obligation of which check reports it (the last verdict per (seed, property) wins)."""
import json, os, re, sys
V = os.path.dirname(os.path.dirname(os.path.abspath(__file__)))
verd = {}
mp = os.path.join(V, "seeded", "MATRIX.md")
if os.path.exists(mp):
    for l in open(mp):
        m = re.match(r"\|\s*(\S+)\s*\|\s*(\S+)\s*\|\s*([^|]+?)\s*\|\s*([^|]*)\|", l)
        if m and m.group(1) not in ("seed", "---"):
            verd[(m.group(1), m.group(2))] = (m.group(3), m.group(4).strip())
rows = []
for d in sorted(os.listdir(os.path.join(V, "seeded"))):
    mf = os.path.join(V, "seeded", d, "meta.json")
    if not os.path.exists(mf):
        continue
    m = json.load(open(mf))
    props = [m["property"]] + m.get("also_check", [])
    vs = []
    for p in props:
        v = verd.get((d, p))
        if v:
            vs.append("%s: %s%s" % (p, v[0], (" (" + v[1] + ")") if v[1] else ""))
    site = (m.get("site") or "").replace("|", "/")
    needs = re.sub(r"\s+", " ", (m.get("needs") or ""))[:180].replace("|", "/")
    if m.get("superseded_by"):
        vs.append("same change as %s (this hunk no longer applies)" % m["superseded_by"])
    rows.append("| %s | %s | %s | %s | %s |" % (d, m["property"], site[:90], needs, "; ".join(vs) or "not run"))
out = ["| seed | property | site | needs | verdict of `./check` (first failed obligations) |", "|---|---|---|---|---|"] + rows
caught = sum(1 for r in rows if ": caught" in r)
missed = sum(1 for r in rows if ": missed" in r and ": caught" not in r)
und = sum(1 for r in rows if "undecided" in r and ": caught" not in r)
out.append("")
out.append("%d seeded changes: %d caught, %d missed, %d undecided (a lost anchor / unsupported construct / compile error of a harness is never an alarm)." % (len(rows), caught, missed, und))
open(os.path.join(V, "seeded", "TABLE.md"), "w").write("\n".join(out) + "\n")
print(out[-1])
